#!/bin/sh
# setup_cmd: offline. Builds /verif/.venv on top of /venv's interpreter and site-packages,
# then installs crosshair-tool, z3-solver, cvc5, jsonschema from the local wheelhouse.
set -e
cd "$(dirname "$0")"
V=/verif/.venv
WH=/opt/veriftools/wheels
if [ ! -x "$V/bin/python" ] || ! "$V/bin/python" -c "import crosshair, z3" 2>/dev/null; then
  rm -rf "$V"
  /venv/bin/python -m venv "$V"
  SP=$("$V/bin/python" -c "import sysconfig; print(sysconfig.get_paths()['purelib'])")
  printf "import site; site.addsitedir('/venv/lib/python3.12/site-packages')\n" > "$SP/_verif_base.pth"
  PIP_NO_INDEX=1 "$V/bin/python" -m pip install -q --no-index --find-links "$WH" crosshair-tool z3-solver cvc5 jsonschema
fi
"$V/bin/python" - <<'PY'
import crosshair, z3, graphql, sys
print("setup ok: python", sys.version.split()[0], "z3", z3.get_version_string(), "graphql from", graphql.__file__)
PY
