"""Shared lexer harnesses (serve C01 totality and C09 lexer-vs-grammar)."""
from __future__ import annotations

from vf import assume, verdict
from vf import stubs
from vf.oracles.spec_lexer import has_surrogate, spec_token

from graphql.error import GraphQLSyntaxError
from graphql.language import Lexer, Source

stubs.fast_syntax_error()


def first_char_class(c: str) -> int:
    """Partition of the first character used to split obligations into cells."""
    if c == '"':
        return 0
    if c == "-" or "0" <= c <= "9":
        return 1
    if c == "." or c == "#":
        return 2
    if c in " \t,﻿\n\r":
        return 3
    if ("a" <= c <= "z") or ("A" <= c <= "Z") or c == "_":
        return 4
    return 5


N_CLASSES = 6


def no_surrogates(s: str) -> bool:
    for c in s:
        if "\ud800" <= c <= "\udfff":
            return False
    return True


def lexer_step(s: str, *, length: int, cls: int, scalar_only: bool, cls1: int = -1) -> bool:
    """One read_next_token from offset 0 on an arbitrary string of exactly ``length`` code
    points whose first character is in class ``cls``: total (only the library's syntax error
    may escape), and -- for scalar-value text -- equal to the specification's tokenizer
    (kind, span, value; both reject or both accept)."""
    assume(len(s) == length)
    if length >= 1:
        assume(first_char_class(s[0]) == cls)
    if cls1 >= 0:
        assume(first_char_class(s[1]) == cls1)
    if scalar_only:
        assume(no_surrogates(s))
    try:
        t = Lexer(Source(s)).read_next_token(0)
        real = (t.kind.value, t.start, t.end, t.value)
    except GraphQLSyntaxError:
        real = None
    except Exception:
        return verdict(False)
    if not scalar_only:
        return verdict(True)  # totality only: the grammar is defined over scalar values
    return verdict(real == spec_token(s, 0))


def lexer_cells(maxlen: int, budget: float, full_last: bool = True):
    """Cells (length, class of s[0][, class of s[1]]) x scalar_only.  With full_last=False the
    longest length is only explored for the string / number / dot-comment classes."""
    obs = []
    for scalar_only in (True, False):
        obs.append(dict(fn="lexer_step", cell=dict(length=0, cls=0, scalar_only=scalar_only), budget_s=30))
        for n in range(1, maxlen + 1):
            for cls in range(N_CLASSES):
                if n == maxlen and not full_last and cls in (3, 4, 5):
                    continue
                if (n >= 3 and cls in (3, 4, 5)) or n >= 4:
                    for cls1 in range(N_CLASSES):
                        obs.append(dict(fn="lexer_step", cell=dict(length=n, cls=cls, scalar_only=scalar_only, cls1=cls1), budget_s=budget))
                else:
                    obs.append(dict(fn="lexer_step", cell=dict(length=n, cls=cls, scalar_only=scalar_only), budget_s=budget))
    return obs


def obligations(tier):
    return lexer_cells(3, 150, full_last=False)


def corpus():
    for s in ["{", "name", "-1.5e+3", '"a\\n"', '"""\n  x\n"""', "...", "# c", "\ufeff ,\n7"]:
        yield "lexer_step", dict(length=len(s), cls=first_char_class(s[0]), scalar_only=True), dict(s=s)
