"""C01 family 3: the real Parser over a lazily materialised *symbolic token stream*.

The parser never looks at characters, only at token kinds and (for names) a few keyword values,
so a sequence of up to N symbolic tokens is the parser's whole input space up to that length.
Token i becomes concrete only when the parser asks for it (solver-forked), so the paths are the
parser's own case distinctions.  The parser itself runs untraced; only the comparison of the
symbolic token selectors happens under tracing."""
from __future__ import annotations

from vf import assume, concrete, symbolic_run, verdict

from graphql.error import GraphQLSyntaxError
from graphql.language import Lexer, Source, TokenKind
from graphql.language.ast import Token
from graphql.language.parser import Parser

KINDS = [k for k in TokenKind if k not in (TokenKind.SOF, TokenKind.EOF, TokenKind.COMMENT)]
NAMES = ["query", "mutation", "subscription", "fragment", "on", "true", "false", "null", "schema", "scalar", "type", "interface", "union",
         "enum", "input", "directive", "extend", "implements", "repeatable", "QUERY", "FIELD", "x", "Int"]
VALUES = {TokenKind.INT: "1", TokenKind.FLOAT: "1.5", TokenKind.STRING: "s", TokenKind.BLOCK_STRING: "b"}
N_KINDS = len(KINDS)
N_NAMES = len(NAMES)


def pick(x, n: int) -> int:
    """solver-forked index in [0, n) (the last value catches everything else)"""
    if symbolic_run():
        from crosshair.tracers import ResumedTracing, is_tracing

        if not is_tracing():
            with ResumedTracing():
                return _pick(x, n)
    return _pick(x, n)


def _pick(x, n):
    for k in range(n - 1):
        if x == k:
            return k
    return n - 1


class SymbolicTokenLexer(Lexer):
    def __init__(self, kinds, names, count):
        super().__init__(Source(""))
        self._kinds, self._names, self._count = kinds, names, count
        self._made = 0

    def read_next_token(self, start: int) -> Token:
        i = self._made
        if i >= self._count:
            return Token(TokenKind.EOF, i, i, 1, i + 1)
        self._made += 1
        kind = KINDS[pick(self._kinds[i], N_KINDS)]
        value = None
        if kind is TokenKind.NAME:
            value = NAMES[pick(self._names[i], N_NAMES)]
        elif kind in VALUES:
            value = VALUES[kind]
        return Token(kind, i, i + 1, 1, i + 1, value)


ENTRIES = ["document", "value", "const_value", "type", "schema_coordinate"]


def _run(kinds, names, count, entry, frag_args, dir_on_dir, max_tokens) -> bool:
    lexer = SymbolicTokenLexer(kinds, names, count)
    parser = Parser(Source(""), no_location=True, max_tokens=max_tokens, experimental_fragment_arguments=frag_args,
                    experimental_directives_on_directive_definitions=dir_on_dir, lexer=lexer)
    try:
        if entry == 0:
            parser.parse_document()
            return True
        parser.expect_token(TokenKind.SOF)
        if entry == 1:
            parser.parse_value_literal(False)
        elif entry == 2:
            parser.parse_const_value_literal()
        elif entry == 3:
            parser.parse_type_reference()
        else:
            parser.parse_schema_coordinate()
        parser.expect_token(TokenKind.EOF)
    except GraphQLSyntaxError:
        return True
    except Exception:
        return False
    return True


def token_stream_total(k0: int, n0: int, k1: int, n1: int, k2: int, n2: int, k3: int, n3: int, k4: int, n4: int, frag_args: bool, dir_on_dir: bool,
                       *, entry: int, count: int, first: int) -> bool:
    """Every sequence of `count` tokens (20 kinds; names from the grammar's keywords, a directive
    location and two plain names) whose first token kind is `first`, through one parsing entry
    point with both experimental flags arbitrary: only the library's syntax error may escape."""
    if first >= 0:
        assume(k0 == first)
    fa = True if frag_args else False
    dd = True if dir_on_dir else False
    return verdict(concrete(_run, [k0, k1, k2, k3, k4], [n0, n1, n2, n3, n4], count, entry, fa, dd, None))


def token_limit(k0: int, n0: int, k1: int, n1: int, k2: int, n2: int, limit: int, *, entry: int) -> bool:
    """With max_tokens = n the parser never consumes more than n tokens before rejecting."""
    from vf import forked

    limit = forked(limit, 0, 5)
    lexer_probe = [0]

    def run():
        lexer = SymbolicTokenLexer([k0, k1, k2, 0, 0], [n0, n1, n2, 0, 0], 3)
        parser = Parser(Source(""), no_location=True, max_tokens=limit, lexer=lexer)
        try:
            if entry == 0:
                parser.parse_document()
            else:
                parser.expect_token(TokenKind.SOF)
                parser.parse_value_literal(False)
                parser.expect_token(TokenKind.EOF)
        except GraphQLSyntaxError:
            pass
        except Exception:
            return False
        lexer_probe[0] = parser.token_count
        return parser.token_count <= limit + 1
    return verdict(concrete(run))


BOUNDS = {
    "quick": ["parser over symbolic token streams: 5 entry points x sequences of exactly 1..2 tokens (all), 3 tokens for the first token kinds that can start the construct (all kinds in thorough), both experimental flags symbolic; token limit 0..4 on 3-token streams"],
    "thorough": ["sequences of 1..4 tokens for all entry points, 5 for value/type/coordinate"],
}
ASSUMPTIONS = [
    "token values: 23 names (all grammar keywords, two directive locations, two plain names); one representative value per Int/Float/String/BlockString token (the parser does not inspect them)",
]


def obligations(tier):
    th = tier == "thorough"
    obs = []
    interesting = {0: (12, 15, 18, 19), 1: (1, 10, 12, 15), 2: (10, 12, 15), 3: (10, 15), 4: (9, 15)}  # first kinds that do not fail at once
    for entry in range(5):
        for count in range(1, (4 if th else 3) + 1):
            if count <= 2:
                obs.append(dict(fn="token_stream_total", cell=dict(entry=entry, count=count, first=-1), budget_s=1200 if th else 60))
                continue
            for first in (range(N_KINDS) if th else interesting[entry]):
                obs.append(dict(fn="token_stream_total", cell=dict(entry=entry, count=count, first=first), budget_s=1200 if th else 60, expect_confirm=th))
    for entry in (0, 1):
        obs.append(dict(fn="token_limit", cell=dict(entry=entry), budget_s=600 if th else 100, expect_confirm=th))
    return obs


def corpus():
    K = {k: i for i, k in enumerate(KINDS)}
    N = {n: i for i, n in enumerate(NAMES)}
    z = dict(k1=0, n1=0, k2=0, n2=0, k3=0, n3=0, k4=0, n4=0, frag_args=False, dir_on_dir=False)
    # "{ x }"
    yield "token_stream_total", dict(entry=0, count=3, first=K[TokenKind.BRACE_L]), dict(z, k0=K[TokenKind.BRACE_L], n0=0, k1=K[TokenKind.NAME], n1=N["x"], k2=K[TokenKind.BRACE_R])
    # "[ 1" as a value
    yield "token_stream_total", dict(entry=1, count=2, first=K[TokenKind.BRACKET_L]), dict(z, k0=K[TokenKind.BRACKET_L], n0=0, k1=K[TokenKind.INT])
    yield "token_stream_total", dict(entry=3, count=2, first=K[TokenKind.NAME]), dict(z, k0=K[TokenKind.NAME], n0=N["Int"], k1=K[TokenKind.BANG])
    yield "token_stream_total", dict(entry=4, count=3, first=K[TokenKind.NAME]), dict(z, k0=K[TokenKind.NAME], n0=N["x"], k1=K[TokenKind.DOT], k2=K[TokenKind.NAME], n2=N["x"])
    yield "token_limit", dict(entry=0), dict(k0=K[TokenKind.BRACE_L], n0=0, k1=K[TokenKind.NAME], n1=N["x"], k2=K[TokenKind.BRACE_R], n2=0, limit=2)
