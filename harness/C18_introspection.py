"""C18: introspection describes the schema truthfully and can rebuild it."""
from __future__ import annotations

import copy

from vf import concrete, forked, verdict

from graphql import build_client_schema, graphql_sync, parse, print_schema, validate, validate_schema
from graphql.utilities import find_schema_changes, get_introspection_query, introspection_from_schema

from harness.C17_print_build import ADVERSARIAL
from harness.schema_family import N_PARTS, build_family, programmatic

OPTS = ["descriptions", "specified_by_url", "directive_is_repeatable", "schema_description", "input_value_deprecation",
        "experimental_directive_deprecation", "one_of"]
FULL = {k: True for k in OPTS}


def introspect(schema, opts):
    q = get_introspection_query(**opts)
    doc = parse(q)
    if validate(schema, doc):
        return None
    r = graphql_sync(schema, q)
    if r.errors:
        return None
    return r.data


def project(full, opts):
    """The full-options result minus exactly what the switched-off options omit."""
    data = copy.deepcopy(full)
    sch = data["__schema"]

    def strip_input_values(values):
        if values is None:
            return None
        out = []
        for v in values:
            if not opts["input_value_deprecation"]:
                if v.get("isDeprecated"):
                    continue
                v.pop("isDeprecated", None)
                v.pop("deprecationReason", None)
            if not opts["descriptions"]:
                v.pop("description", None)
            out.append(v)
        return out

    if not (opts["schema_description"] and opts["descriptions"]):
        sch.pop("description", None)
    for t in sch["types"]:
        if not opts["descriptions"]:
            t.pop("description", None)
        if not opts["specified_by_url"]:
            t.pop("specifiedByURL", None)
        if not opts["one_of"]:
            t.pop("isOneOf", None)
        for f in t.get("fields") or []:
            if not opts["descriptions"]:
                f.pop("description", None)
            f["args"] = strip_input_values(f["args"])
        t["inputFields"] = strip_input_values(t.get("inputFields"))
        for ev in t.get("enumValues") or []:
            if not opts["descriptions"]:
                ev.pop("description", None)
    dirs = []
    for d in sch["directives"]:
        if not opts["experimental_directive_deprecation"]:
            if d.get("isDeprecated"):
                continue
            d.pop("isDeprecated", None)
            d.pop("deprecationReason", None)
        if not opts["descriptions"]:
            d.pop("description", None)
        if not opts["directive_is_repeatable"]:
            d.pop("isRepeatable", None)
        d["args"] = strip_input_values(d["args"])
        dirs.append(d)
    sch["directives"] = dirs
    return data


def _options(schema_kind, sbits, off_mask) -> bool:
    schema = build_family(sbits) if schema_kind == 0 else programmatic(ADVERSARIAL[sbits[0] + 2 * sbits[1] + 4 * sbits[2]], [None, "why", "", "two\nlines"][sbits[3] + 2 * sbits[6]], sbits[4] + 2 * sbits[5])
    opts = {k: not ((off_mask >> i) & 1) for i, k in enumerate(OPTS)}
    full = introspect(schema, FULL)
    got = introspect(schema, opts)
    if full is None or got is None:
        return False
    return got == project(full, opts)


def option_combinations(s0: bool, s1: bool, s2: bool, s3: bool, s4: bool, s5: bool, s6: bool, s7: bool, hi: int, *, kind: int, lo: int) -> bool:
    """Every combination of the 7 options validates, executes without errors and equals the
    full-options result minus exactly the attributes / deprecated input values it omits."""
    sbits = [1 if b else 0 for b in (s0, s1, s2, s3, s4, s5, s6, s7)]
    off_mask = lo + 8 * forked(hi, 0, 16)  # cell: the three low option bits
    try:
        return verdict(concrete(_options, kind, sbits, off_mask))
    except Exception:
        return verdict(False)


def _rebuild(schema_kind, sbits) -> bool:
    schema = build_family(sbits) if schema_kind == 0 else programmatic(ADVERSARIAL[sbits[0] + 2 * sbits[1] + 4 * sbits[2]], [None, "why", "", "two\nlines"][sbits[3] + 2 * sbits[6]], sbits[4] + 2 * sbits[5])
    intro = introspection_from_schema(schema, descriptions=True, specified_by_url=True, directive_is_repeatable=True,
                                      schema_description=True, input_value_deprecation=True, one_of=True)
    client = build_client_schema(intro)
    if validate_schema(client):
        return False
    if print_schema(client) != print_schema(schema):
        return False
    if find_schema_changes(schema, client) or find_schema_changes(client, schema):
        return False
    again = introspection_from_schema(client, descriptions=True, specified_by_url=True, directive_is_repeatable=True,
                                      schema_description=True, input_value_deprecation=True, one_of=True)
    if again != intro:
        return False
    # single-type lookups agree with the full type list
    full = introspect(schema, FULL)
    for t in full["__schema"]["types"]:
        r = graphql_sync(schema, '{ __type(name: "' + t["name"] + '") { kind name description specifiedByURL isOneOf fields(includeDeprecated: true) { name isDeprecated } enumValues(includeDeprecated: true) { name deprecationReason } inputFields(includeDeprecated: true) { name defaultValue } } }')
        if r.errors:
            return False
        one = r.data["__type"]
        if one["kind"] != t["kind"] or one["description"] != t["description"] or one["specifiedByURL"] != t["specifiedByURL"] or one["isOneOf"] != t["isOneOf"]:
            return False
        if [f["name"] for f in one["fields"] or []] != [f["name"] for f in t["fields"] or []]:
            return False
        if [(v["name"], v["deprecationReason"]) for v in one["enumValues"] or []] != [(v["name"], v["deprecationReason"]) for v in t["enumValues"] or []]:
            return False
        if [(v["name"], v["defaultValue"]) for v in one["inputFields"] or []] != [(v["name"], v["defaultValue"]) for v in t["inputFields"] or []]:
            return False
    return True


def client_rebuild(s0: bool, s1: bool, s2: bool, s3: bool, s4: bool, s5: bool, s6: bool, s7: bool, *, kind: int) -> bool:
    """build_client_schema(full result) prints identically, shows no differences and
    introspects to the same result; __type(name:) lookups agree with the type list."""
    sbits = [1 if b else 0 for b in (s0, s1, s2, s3, s4, s5, s6, s7)]
    try:
        return verdict(concrete(_rebuild, kind, sbits))
    except Exception:
        return verdict(False)


BOUNDS = {
    "quick": [
        "schemas: the 256 SDL variants (8 optional parts) and 64 programmatic variants (8 adversarial descriptions x deprecation reason x 4 default shapes)",
        "all 128 combinations of the 7 introspection query options on each (solver-forked mask); quick explores within a time budget, thorough exhausts",
        "client schema rebuild + re-introspection + single-type lookups for every schema of both families",
    ],
    "thorough": ["same, exhaustive"],
}
ASSUMPTIONS = [
    "ad-hoc introspection selections other than the standard query and the __type lookups listed are outside",
    "the projection oracle is written from the documented meaning of each option (which attributes / deprecated values it adds)",
]


def obligations(tier):
    th = tier == "thorough"
    obs = []
    for kind in (0, 1):
        for lo in range(8):
            obs.append(dict(fn="option_combinations", cell=dict(kind=kind, lo=lo), budget_s=3600 if th else 100, expect_confirm=th))
        obs.append(dict(fn="client_rebuild", cell=dict(kind=kind), budget_s=3600 if th else 150))
    return obs


def corpus():
    all_on = dict(s0=True, s1=True, s2=True, s3=True, s4=True, s5=True, s6=True, s7=True)
    all_off = {k: False for k in all_on}
    for kind in (0, 1):
        for sb in (all_on, all_off):
            for m in (0, 127, 16, 32, 1, 85):
                yield "option_combinations", dict(kind=kind, lo=m % 8), dict(sb, hi=m // 8)
            yield "client_rebuild", dict(kind=kind), dict(sb)
        # an element deprecated with an EMPTY reason is still deprecated
        empty_reason = dict(all_off, s6=True)
        for m in (0, 127, 16, 32, 1, 85, 2, 4, 8, 64):
            yield "option_combinations", dict(kind=kind, lo=m % 8), dict(empty_reason, hi=m // 8)
        yield "client_rebuild", dict(kind=kind), dict(empty_reason)
