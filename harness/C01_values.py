"""C01 (values): exotic Python values as variable values and exotic exception classes.

Everything here is selected by bounded symbolic ints that the solver forks into concrete choices;
the request then runs *untraced and without any stub* (in particular with the real
``pyutils.inspect`` that renders values into error messages -- the symbolic-payload harnesses of
C01_total replace it by a constant, so what only message rendering can break is checked here)."""
from __future__ import annotations

from vf import concrete, forked, verdict

from graphql import graphql_sync

from harness.C01_total import SCHEMA, VAR_DOC, VAR_NAMES, pipeline_schema, well_formed, RAISE_DOC, RAISING_FIELDS


class Opaque:
    pass


class BadRepr:
    def __repr__(self):
        raise RuntimeError("no repr")


class BadInspect:
    def __inspect__(self):
        raise RuntimeError("no inspect")


class StrSub(str):
    pass


class IntSub(int):
    pass


def _values():
    cyc = []
    cyc.append(cyc)
    return [
        10**5000, -(10**5000), 2**31, -(2**31) - 1, 2**53 + 1, 10**400, float("nan"), float("inf"), -0.0, 1e308, 5e-324,
        {1: 2}, {None: 1}, {("a",): 1}, {"": 1}, {"b": "s", 1: 2}, {"x": 1, "y": "s"}, {"x": None}, {"b": 10**5000},
        [10**5000], [[1]], (1, 2), {1, 2}, frozenset(), b"bytes", bytearray(b"ba"), Opaque(), BadRepr(), BadInspect(), StrSub("RED"), IntSub(3),
        cyc, {"n": {"n": {"n": {"n": {"b": 1}}}}}, "\ud800", "x" * 5000, 1j, range(3), lambda: 1, Ellipsis, NotImplemented, type, [None] * 200,
    ]


VALUES = _values()


def _variable_value(which, k, hide, extra_r) -> bool:
    variables = {VAR_NAMES[which]: VALUES[k]}
    if extra_r:
        variables["r"] = 1
    try:
        r = graphql_sync(SCHEMA, VAR_DOC, variable_values=variables, operation_name="A", hide_suggestions=hide)
        return well_formed(r)
    except Exception:
        return False


def variable_value_kinds(k: int, hide: bool, extra_r: bool, *, which: int) -> bool:
    """Each of the 10 declared variables (every built-in scalar, enum, list, input object, OneOf,
    non-null) gets each exotic value: the request returns a well-formed result."""
    k = forked(k, 0, len(VALUES))
    return verdict(concrete(_variable_value, which, k, True if hide else False, True if extra_r else False))


def _classes():
    class GetattrKeyError(Exception):
        def __getattr__(self, name):
            raise KeyError(name)

    class BoolRaises(Exception):
        def __bool__(self):
            raise RuntimeError("no bool")

    class LenRaises(Exception):
        def __len__(self):
            raise RuntimeError("no len")

    class EmptyCollection(Exception):
        def __len__(self):
            return 0

    class MessageRaises(Exception):
        @property
        def message(self):
            raise RuntimeError("no message")

    class ExtensionsRaises(Exception):
        @property
        def extensions(self):
            raise RuntimeError("no extensions")

    class ExtensionsOdd(Exception):
        extensions = 5

    class GetattributeRaises(Exception):
        def __getattribute__(self, name):
            if name in ("nodes", "source", "positions", "extensions", "message", "locations"):
                raise ValueError(name)
            return super().__getattribute__(name)

    class EqRaises(Exception):
        def __eq__(self, other):
            raise RuntimeError("no eq")

        __hash__ = Exception.__hash__

    class Unhashable(Exception):
        __hash__ = None

    class ReprRaises(Exception):
        def __repr__(self):
            raise RuntimeError("no repr")

    class StrNotStr(Exception):
        def __str__(self):
            return 5

    class Slots(Exception):
        __slots__ = ()

    class OriginalErrorAttr(Exception):
        original_error = "not an error"

    class PathAttr(Exception):
        path = 5

    return [GetattrKeyError, BoolRaises, LenRaises, EmptyCollection, MessageRaises, ExtensionsRaises, ExtensionsOdd, GetattributeRaises, EqRaises,
            Unhashable, ReprRaises, StrNotStr, Slots, OriginalErrorAttr, PathAttr]


CLASSES = _classes()


def _exception_class(field, c, as_value) -> bool:
    cls = CLASSES[c]

    def boom(_args):
        e = cls("x")
        if as_value:
            return e
        raise e

    schema = pipeline_schema({RAISING_FIELDS[field]: boom})
    try:
        r = graphql_sync(schema, RAISE_DOC)
    except Exception:
        return False
    if not well_formed(r) or not r.errors:
        return False
    for err in r.errors:
        if not isinstance(err.path, list) or not err.path or err.locations is None:
            return False
    return True


def resolver_exception_classes(field: int, c: int, as_value: bool) -> bool:
    """A resolver raising (or returning) an instance of an exception class with unusual special
    methods / attributes yields located errors, never an exception out of execution."""
    field = forked(field, 0, len(RAISING_FIELDS))
    c = forked(c, 0, len(CLASSES))
    return verdict(concrete(_exception_class, field, c, True if as_value else False))


BOUNDS = {
    "quick": [
        "variable values: each of 10 declared variables x 42 exotic Python values (ints beyond the integer-string conversion limit, non-finite floats, dicts with non-string keys, containers, bytes, objects with failing __repr__/__inspect__, subclasses of str/int, cyclic and deeply nested values, lone surrogate, callables...) x suggestions on/off, real message rendering",
        "exception classes: 8 resolver positions x 15 classes with unusual special methods (__getattr__/__getattribute__/__bool__/__len__/__eq__/__repr__ raising, unhashable, non-str __str__, attribute names of GraphQLError with unrelated content) x raised/returned",
    ],
    "thorough": ["same (finite families, fully explored)"],
}
ASSUMPTIONS = ["exceptions that are not subclasses of Exception are outside the claim"]


def obligations(tier):
    B = 600 if tier == "thorough" else 90
    obs = [dict(fn="variable_value_kinds", cell=dict(which=w), budget_s=B) for w in range(len(VAR_NAMES))]
    obs.append(dict(fn="resolver_exception_classes", cell={}, budget_s=B * 2))
    return obs


def corpus():
    for w in range(len(VAR_NAMES)):
        yield "variable_value_kinds", dict(which=w), dict(k=0, hide=True, extra_r=True)
        yield "variable_value_kinds", dict(which=w), dict(k=11, hide=False, extra_r=True)
        yield "variable_value_kinds", dict(which=w), dict(k=27, hide=False, extra_r=False)
    for c in range(len(CLASSES)):
        yield "resolver_exception_classes", {}, dict(field=2, c=c, as_value=False)
