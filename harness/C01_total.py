"""C01: the request pipeline is total -- bad input becomes errors, never a crash."""
from __future__ import annotations

from typing import Optional

from vf import assume, fixlen, forked, verdict
from vf import stubs

from graphql import ExecutionResult, GraphQLError, graphql_sync
from graphql.error import GraphQLSyntaxError
from graphql.language import (
    Lexer, Source, parse, parse_const_value, parse_schema_coordinate, parse_type, parse_value,
)
from graphql.language.schema_coordinate_lexer import SchemaCoordinateLexer

from harness.lexer_common import first_char_class, lexer_cells, lexer_step  # noqa: F401
from harness.schemas import pipeline_schema

stubs.fast_syntax_error()

ENTRY = [parse, parse_value, parse_const_value, parse_type, parse_schema_coordinate]


def only_syntax_error(fn, text) -> bool:
    try:
        fn(text)
    except GraphQLSyntaxError:
        return True
    except Exception:
        return False
    return True


# ---- family 1b: schema coordinate lexer, one step -------------------------------------------
def coordinate_lexer_step(s: str, *, length: int) -> bool:
    assume(len(s) == length)
    try:
        SchemaCoordinateLexer(Source(s)).read_next_token(0)
    except GraphQLSyntaxError:
        pass
    except Exception:
        return verdict(False)
    return verdict(True)


# ---- family 2: escape / number / dot contexts by template -------------------------------------
TEMPLATES = ['"', '"a', '"\\', '"a\\', '"\\u', '"\\u{', '"\\uD83D\\u', '"""', '"""\\', "-", "0", "1.", "1e", "1e+", ".", "..", "0.0", "#"]


def template_tail(s: str, *, tpl: int, length: int, entry: int) -> bool:
    """Every entry point on template prefix + arbitrary tail: only the syntax error escapes."""
    assume(len(s) == length)
    s = fixlen(s, length)
    return verdict(only_syntax_error(ENTRY[entry], TEMPLATES[tpl] + s))


def unicode_escape_truncated(c: str, hp: int, k: int, *, which: int) -> bool:
    r"""'"\uD83D\uDE00" x' with one hex digit (position hp of escape ``which``) replaced by an
    arbitrary character, cut off after k characters."""
    assume(len(c) == 1)
    c = c[0]
    hp = forked(hp, 0, 4)
    quartets = ["D83D", "DE00"]
    q = quartets[which]
    quartets[which] = q[:hp] + c + q[hp + 1 :]
    text = '"\\u' + quartets[0] + "\\u" + quartets[1] + '" x'
    k = forked(k, 3, len(text) + 1)
    t = text[:k]
    return verdict(only_syntax_error(parse_value, t) and only_syntax_error(parse, "{a(b:" + t))


ESC_LEN = len('"\\uD83D\\uDE00" x')

# ---- family 4: whole pipeline -------------------------------------------------------------------
SCHEMA = pipeline_schema()


def well_formed(result) -> bool:
    """Response format: data/errors shapes as the spec's Response section prescribes."""
    try:
        return _well_formed(result)
    except Exception:
        return False  # e.g. formatting the result fails because a raw exception sits in errors


def _well_formed(result) -> bool:
    if not isinstance(result, ExecutionResult):
        return False
    f = result.formatted
    if "data" not in f:
        return False
    data = f["data"]
    if not (data is None or isinstance(data, dict)):
        return False
    if "errors" in f:
        errs = f["errors"]
        if not isinstance(errs, list) or not errs:
            return False
        for e in errs:
            if not isinstance(e, dict) or not isinstance(e.get("message"), str):
                return False
            if "locations" in e:
                for loc in e["locations"]:
                    if not (isinstance(loc["line"], int) and isinstance(loc["column"], int) and loc["line"] >= 1 and loc["column"] >= 1):
                        return False
            if "path" in e:
                if not isinstance(e["path"], list):
                    return False
                for seg in e["path"]:
                    if not isinstance(seg, (str, int)):
                        return False
    elif data is None:
        return False  # no data and no errors
    for e in result.errors or []:
        if not isinstance(e, GraphQLError):
            return False
    return True


def run_request(text, variables=None, operation_name=None, schema=SCHEMA, hide_suggestions=True) -> bool:
    try:
        r = graphql_sync(schema, text, variable_values=variables, operation_name=operation_name, hide_suggestions=hide_suggestions)
        return well_formed(r)
    except Exception:
        return False


def pipeline_short(s: str, *, length: int, cls: int) -> bool:
    assume(len(s) == length)
    if length:
        assume(first_char_class(s[0]) == cls)
    return verdict(run_request(s))


PIPE_DOCS = [
    '{ a: int(x: 1) ...F } fragment F on Query { nn }',
    'query Q($a: Int = 1, $i: Inp) { int(x: $a) inp(x: $i) obj { id ...F } }\nfragment F on Obj { name self { req } }',
    '{ color(x: RED) list(x: [1, 2]) one(x: {x: 1}) str(x: """b\n c""") float(x: -1.5e3) objs { id } }',
    "mutation { x }",
    '{ a: int(x: 1) @skip(if: true) ... on Query @include(if: false) { nn } bool(x: true) id(x: "\\u{1F600}") }',
]


def pipeline_truncated(k: int, *, doc: int) -> bool:
    text = PIPE_DOCS[doc]
    k = forked(k, 0, len(text) + 1)
    t = text[:k]
    return verdict(run_request(t) and all(only_syntax_error(f, t) for f in ENTRY))


def pipeline_substituted(p: int, c: str, *, doc: int, plo: int, phi: int) -> bool:
    text = PIPE_DOCS[doc]
    p = forked(p, plo, min(phi, len(text)))
    assume(len(c) == 1)
    c = c[0]
    return verdict(run_request(text[:p] + c + text[p + 1 :]))


def nesting(d: int, kind: int, close: bool) -> bool:
    """Bracket nesting up to depth 100 (well-formed or unclosed) never crashes any entry point."""
    assume(0 <= d <= 100)
    kind = forked(kind, 0, 4)
    op, cl, body = [("[", "]", "1"), ("{", "}", "a:1"), ("{a", "}", ""), ("[", "]!", "Int")][kind]
    depth = 0
    text = ""
    # d is symbolic: build by comparison so the solver picks each depth class
    while depth < 100 and depth < d:
        text += op
        depth += 1
    text += body
    if close:
        text += cl * depth if kind != 2 else cl * depth
    fns = [parse_value, parse_value, parse, parse_type]
    ok = only_syntax_error(fns[kind], text)
    if kind == 2:
        ok = ok and run_request(text)
    return verdict(ok)


# ---- family 5: variables, operation name, resolver failures ---------------------------------------
VAR_DOC = ("query A($i: Int, $f: Float = 1.5, $s: String, $b: Boolean, $d: ID, $c: Color, $l: [Int!], $n: Inp, $o: One, $r: Int!) "
           "{ int(x: $i) float(x: $f) str(x: $s) bool(x: $b) id(x: $d) color(x: $c) list(x: $l) inp(x: $n) one(x: $o) nn r: int(x: $r) } "
           "query B { int }")
VAR_NAMES = ["i", "f", "s", "b", "d", "c", "l", "n", "o", "r"]
# (the document must be valid, otherwise no request ever reaches variable coercion: until the
# third build round $r was declared but unused, so every request ended at validation)
from graphql import validate as _validate, parse as _parse
assert _validate(SCHEMA, _parse(VAR_DOC)) == [], _validate(SCHEMA, _parse(VAR_DOC))


def variables_any(kind: int, iv: int, fv: float, sv: str, bv: bool, opname: Optional[str], present_r: bool, *, which: int) -> bool:
    """One variable gets an arbitrary value of an arbitrary kind; operation name arbitrary."""
    kind = forked(kind, 0, 9)
    if opname is not None:
        assume(len(opname) <= 2)
    assume(len(sv) <= 2)
    val = [None, iv, fv, sv, bv, [iv], [sv, None], {"b": sv, "a": iv}, {"x": iv, "zz": bv}][kind]
    variables = {VAR_NAMES[which]: val}
    if present_r:
        variables["r"] = 1
    return verdict(run_request(VAR_DOC, variables, opname))


def suggestions_total(inp: str, *, length: int) -> bool:
    """The did-you-mean machinery (reached from variable coercion and validation messages) is
    total on arbitrary text."""
    from graphql.pyutils import suggestion_list

    assume(len(inp) == length)
    try:
        r = suggestion_list(inp, ["ab", "i", "RED", "GREEN"])
    except Exception:
        return verdict(False)
    return verdict(isinstance(r, list))


def enum_variable_with_suggestions(sv: str, *, length: int) -> bool:
    """An arbitrary string as the value of an enum variable, suggestions enabled."""
    assume(len(sv) == length)
    return verdict(run_request("query ($c: Color) { color(x: $c) }", {"c": sv}, None, hide_suggestions=False))


OPS = ["query", "mutation", "subscription"]
ROOT_FIELD = {"query": "int", "mutation": "m", "subscription": "s"}
ROOT_OBJ = {"query": "obj", "mutation": "mobj", "subscription": "sobj"}
ROOT_TYPE = {"query": "Query", "mutation": "Mutation", "subscription": "Subscription"}
DIRECTIVES = ["defer", "stream", "skip", "include", "deprecated", "unknown"]
DARGS = ["if", "label", "initialCount", "reason", ""]  # "" = the directive without arguments
DLITS = ['"x"', "1", "true", "null", "$v", "[1]", "{a: 1}", "1.5", "E", "-1"]
DSITES = ["inline", "field", "spread", "list_field", "typename", "nested_typename", "schema_meta", "type_meta"]


def directive_templates(d: int, a: int, lit: int, site: int, with_var: bool, *, op: int, site0: int = 0) -> bool:
    """Built-in directives with arbitrary (well- or ill-typed) arguments at every kind of site
    under every operation kind: errors are returned, never raised."""
    opk = OPS[op]
    dname = DIRECTIVES[forked(d, 0, len(DIRECTIVES))]
    arg = DARGS[forked(a, 0, len(DARGS))]
    litv = DLITS[forked(lit, 0, len(DLITS))]
    sitek = DSITES[site0 + forked(site, 0, 4)]
    dtext = "@" + dname + ("(" + arg + ": " + litv + ")" if arg else "")
    head = opk + (" Q($v: Boolean)" if with_var else "")
    if sitek == "inline":
        body = "{ ... " + dtext + " { " + ROOT_FIELD[opk] + " } }"
    elif sitek == "field":
        body = "{ " + ROOT_FIELD[opk] + " " + dtext + " }"
    elif sitek == "typename":  # introspection meta fields are not among the parent type's own fields
        body = "{ __typename " + dtext + " }"
    elif sitek == "nested_typename":
        body = "{ " + ROOT_OBJ[opk] + " { __typename " + dtext + " id } }"
    elif sitek == "schema_meta":
        body = "{ __schema " + dtext + " { types { name } } }"
    elif sitek == "type_meta":
        body = "{ __type(name: \"Obj\") " + dtext + " { fields " + dtext + " { name } } }"
    elif sitek == "spread":
        body = "{ ...F " + dtext + " } fragment F on " + ROOT_TYPE[opk] + " { " + ROOT_FIELD[opk] + " }"
    else:
        body = "{ " + ROOT_OBJ[opk] + " { self { id } } }" if opk != "query" else "{ objs " + dtext + " { id } }"
    return verdict(run_request(head + " " + body, {"v": True} if with_var else None))


DUP_SHAPES = ["{ obj obj { id } }", "{ obj { id } obj }", "{ x: int x: obj { id } }", "{ obj { self self { id } } }", "{ ...F obj } fragment F on Query { obj { id } }",
              "{ objs { id } objs }", "{ obj { id { x } id } }", "{ int { a } int }", "{ a: obj { id } a: objs { id } }", "{ obj @skip(if: true) obj { id } }"]


def duplicate_response_keys(k: int, variant: int) -> bool:
    """The same response key selected twice with and without a sub-selection (merge validation
    has to cope with every combination): errors are returned, never raised."""
    text = DUP_SHAPES[forked(k, 0, len(DUP_SHAPES))]
    variant = forked(variant, 0, 3)
    if variant == 1:
        text = "query Q " + text
    elif variant == 2:
        text = text.replace("{ ", "{ __typename ", 1)
    return verdict(run_request(text) and run_request(text, {"v": 1}, "Q"))


def fragment_cycles(op: int, n: int, via_inline: bool, nested: bool) -> bool:
    """Fragment spread cycles (length 1..3) under every operation kind are reported, not crashed on."""
    opk = OPS[forked(op, 0, 3)]
    n = forked(n, 1, 4)
    t = ROOT_TYPE[opk]
    f = ROOT_FIELD[opk]
    spread0 = "... { ...F0 }" if via_inline else "...F0"
    if nested:
        t = "Obj"
        text = opk + " { " + ROOT_OBJ[opk] + " { " + spread0 + " } }"
        f = "name"
    else:
        text = opk + " { " + spread0 + " }"
    for k in range(n):
        text += " fragment F" + str(k) + " on " + t + " { " + f + " ...F" + str((k + 1) % n) + " }"
    return verdict(run_request(text))


class WeirdStr(Exception):
    def __str__(self):
        raise RuntimeError("no str")


class WeirdMessage(Exception):
    message = 42


class WithListPath(Exception):
    """looks like an already located error (has a list-valued `path`) but is not a GraphQLError"""
    path = []


class WithStrPath(Exception):
    path = "a/b"
    locations = 7
    nodes = "n"


EXC = [Exception("e"), ValueError(1, 2), KeyError("k"), GraphQLError("g"), WeirdStr(), WeirdMessage(), ZeroDivisionError(), TypeError(None), StopIteration(), AttributeError("a"),
       WithListPath("p"), WithStrPath("q"), ImportError("i", name="n", path="/x")]
RAISING_FIELDS = ["int", "obj", "Obj.id", "Obj.self", "objs", "nn", "Obj.req", "list"]
RAISE_DOC = "{ int obj { id self { id req } } objs { id name } nn list }"


def resolver_raises(field: int, exc: int, as_value: bool) -> bool:
    """Any resolver raising (or returning) any exception instance yields located errors."""
    field = forked(field, 0, len(RAISING_FIELDS))
    exc = forked(exc, 0, len(EXC))
    e = EXC[exc]

    def boom(_args):
        if as_value:
            return e
        raise e

    schema = pipeline_schema({RAISING_FIELDS[field]: boom})
    try:
        r = graphql_sync(schema, RAISE_DOC)
    except Exception:
        return verdict(False)
    if not well_formed(r) or not r.errors:
        return verdict(False)
    for err in r.errors:
        if not isinstance(err.path, list) or not err.path or err.locations is None:
            return verdict(False)
    return verdict(True)


BOUNDS = {
    "quick": [
        "lexer step totality: every string (all code points incl. lone surrogates) of exactly 0..3 code points (length 3 only for string/number/dot/comment first chars)",
        "schema coordinate lexer step: every string <= 2",
        "templates: 18 escape/number/dot/block-string prefixes + arbitrary tail of exactly 1..2 code points, through parse / parse_value (quick) and all five entry points (thorough)",
        "\\uXXXX\\uYYYY with one hex digit (any of the 8 positions) replaced by any code point, truncated at every point",
        "graphql_sync on every string <= 2 code points; 5 documents truncated at every point; one arbitrary code point substituted at every position of 1 document (5 in thorough)",
        "bracket nesting depth 0..100 x 4 bracket kinds x closed/unclosed",
        "variables: one of 10 variables set to None/int/float/str<=2/bool/[int]/[str,None]/dict/dict, operation name None or any str <= 2",
        "resolver failure: 8 resolver positions x 13 exception instances x raised/returned; 10 duplicate-response-key shapes x 3 variants",
        "did-you-mean: suggestion_list on every string <= 2 code points; enum variable value any string <= 2 with suggestions on",
        "directive templates: 3 operation kinds x 6 directives x (4 argument names x 10 literals | no arguments) x 8 sites (inline fragment, field, spread, list field, __typename at root and nested, __schema, __type and its list field) x with/without variable definition",
        "fragment cycles: 3 operation kinds x cycle length 1..3 x via inline fragment x nested",
    ],
    "thorough": ["as quick with tails of 1..3, pipeline strings <= 3, substitution on all 5 documents, lexer step up to 4 code points"],
}
ASSUMPTIONS = [
    "GraphQLSyntaxError's description text is replaced by a constant during symbolic runs (class, source, positions, locations unchanged); replay uses the real class",
    "hide_suggestions=True in pipeline harnesses (did-you-mean lists are not the subject)",
    "resolvers raising BaseException that is not Exception are outside the claim",
    "free source text beyond the stated lengths/templates is outside the claim",
]


def obligations(tier):
    th = tier == "thorough"
    B = 900 if th else 120
    obs = [o for o in lexer_cells(4 if th else 3, B, full_last=th) if not o["cell"]["scalar_only"]]
    for n in range(0, 3):
        obs.append(dict(fn="coordinate_lexer_step", cell=dict(length=n), budget_s=B))
    for t in range(len(TEMPLATES)):
        for n in range(1, (3 if th else 2) + 1):
            for entry in (range(5) if th else (0, 1)):
                obs.append(dict(fn="template_tail", cell=dict(tpl=t, length=n, entry=entry), budget_s=B))
    for which in (0, 1):
        obs.append(dict(fn="unicode_escape_truncated", cell=dict(which=which), budget_s=B * 2))
    for n in range(0, (3 if th else 2) + 1):
        for cls in range(6 if n else 1):
            obs.append(dict(fn="pipeline_short", cell=dict(length=n, cls=cls), budget_s=B))
    for d in range(len(PIPE_DOCS)):
        obs.append(dict(fn="pipeline_truncated", cell=dict(doc=d), budget_s=B))
    for d in (range(len(PIPE_DOCS)) if th else (0,)):
        step = 3
        for lo in range(0, len(PIPE_DOCS[d]), step):
            obs.append(dict(fn="pipeline_substituted", cell=dict(doc=d, plo=lo, phi=lo + step), budget_s=B if th else 60, expect_confirm=th))
    obs.append(dict(fn="nesting", cell={}, budget_s=B * 2, per_path_timeout=60))
    for which in range(len(VAR_NAMES)):
        obs.append(dict(fn="variables_any", cell=dict(which=which), budget_s=B))
    obs.append(dict(fn="resolver_raises", cell={}, budget_s=B))
    for n in range(0, (3 if th else 2) + 1):
        obs.append(dict(fn="suggestions_total", cell=dict(length=n), budget_s=B))
        obs.append(dict(fn="enum_variable_with_suggestions", cell=dict(length=n), budget_s=B))
    for op in range(3):
        for site0 in (0, 4):
            obs.append(dict(fn="directive_templates", cell=dict(op=op, site0=site0), budget_s=B * 2))
    obs.append(dict(fn="fragment_cycles", cell={}, budget_s=B))
    obs.append(dict(fn="duplicate_response_keys", cell={}, budget_s=B))
    return obs


def corpus():
    yield "coordinate_lexer_step", dict(length=2), dict(s="a.")
    yield "template_tail", dict(tpl=2, length=1, entry=1), dict(s="n")
    yield "unicode_escape_truncated", dict(which=0), dict(c="D", hp=0, k=14)
    yield "unicode_escape_truncated", dict(which=1), dict(c="0", hp=3, k=16)
    yield "pipeline_short", dict(length=3, cls=5), dict(s="{a}")
    for d in range(len(PIPE_DOCS)):
        yield "pipeline_truncated", dict(doc=d), dict(k=len(PIPE_DOCS[d]))
        yield "pipeline_substituted", dict(doc=d, plo=0, phi=999), dict(p=0, c=PIPE_DOCS[d][0])
    yield "nesting", {}, dict(d=3, kind=1, close=True)
    yield "variables_any", dict(which=0), dict(kind=1, iv=3, fv=1.0, sv="x", bv=True, opname="A", present_r=True)
    yield "resolver_raises", {}, dict(field=2, exc=4, as_value=False)
    yield "suggestions_total", dict(length=2), dict(inp="ba")
    yield "enum_variable_with_suggestions", dict(length=3), dict(sv="RED")
    yield "directive_templates", dict(op=0, site0=0), dict(d=2, a=0, lit=2, site=1, with_var=False)
    for op in range(3):
        for site in range(4):
            yield "directive_templates", dict(op=op, site0=4), dict(d=1, a=4, lit=0, site=site, with_var=False)
            yield "directive_templates", dict(op=op, site0=4), dict(d=0, a=0, lit=2, site=site, with_var=True)
    yield "fragment_cycles", {}, dict(op=0, n=2, via_inline=False, nested=False)
    yield "duplicate_response_keys", {}, dict(k=0, variant=0)
    yield "duplicate_response_keys", {}, dict(k=4, variant=1)
