"""C16/C15 numeric kernels by E2 (AST -> QF_BVFP, z3; cvc5 cross-check on request).

Each obligation translates the *current* source of graphql.type.scalars functions, builds the
negated claim and asks the solver.  ``numeric_case`` is the concrete twin used for replaying
counterexamples on the real code, for the corpus and for validating the translator.
"""
from __future__ import annotations

import math
import time
from fractions import Fraction

import z3

import graphql.type.scalars as scalars
from graphql import GraphQLError
from graphql.language.ast import IntValueNode

from vf import verdict
from vf.smt import (
    FP, RNE, RTZ, W, Inline, IntOfFloat, Node, Opaque, Outcome, SBool, SFloat, SInt, Translator, Unencodable, bv, check,
    fpconst, int_value,
)

MAXI, MINI = 2**31 - 1, -(2**31)
FUNCS = ["serialize_int", "coerce_int", "serialize_float", "coerce_float", "int_value_to_literal", "serialize_id", "serialize_boolean"]
SORTS = ["float", "int", "bool"]


# ----------------------------------------------------------------------------------------------
# concrete semantics (ground truth for one input) -- also the replay target
def integral_in_range(v) -> bool:
    if isinstance(v, bool):
        return False
    if isinstance(v, float):
        return math.isfinite(v) and v == int(v) and MINI <= v <= MAXI
    return MINI <= v <= MAXI


def exact_float(v) -> bool:
    if isinstance(v, float):
        return math.isfinite(v)
    try:
        return int(float(v)) == v
    except OverflowError:
        return False


def numeric_case(value, *, fn: str) -> bool:
    """The C16/C15 claims for one concrete number, checked on the real function."""
    f = getattr(scalars, fn)
    try:
        r = f(value)
        raised = False
    except GraphQLError:
        r, raised = None, True
    except Exception:
        return verdict(False)
    is_bool = isinstance(value, bool)
    if fn in ("serialize_int", "coerce_int"):
        if is_bool:
            ok = (raised if fn == "coerce_int" else (not raised and type(r) is int and r == int(value)))
        elif raised:
            ok = not integral_in_range(value)
        else:
            ok = type(r) is int and MINI <= r <= MAXI and r == value and integral_in_range(value)
        if ok and not raised:
            ok = scalars.coerce_int(r) == r
        return verdict(ok)
    if fn in ("serialize_float", "coerce_float"):
        if is_bool:
            ok = (raised if fn == "coerce_float" else (not raised and r == int(value)))
        elif raised:
            ok = not exact_float(value)
        else:
            ok = isinstance(r, float) and math.isfinite(r) and Fraction(r) == Fraction(value)
        if ok and not raised and not is_bool:
            ok = scalars.coerce_float(r) == r
        return verdict(ok)
    if fn == "int_value_to_literal":
        accepts = (not is_bool) and integral_in_range(value)
        if raised:
            return verdict(False)
        if r is None:
            return verdict(not accepts)
        return verdict(accepts and isinstance(r, IntValueNode) and r.value == str(int(value)) and scalars.parse_int_literal(r) == value)
    if fn == "serialize_id":
        if is_bool:
            return verdict(raised)
        ok_in = (not isinstance(value, float)) or (math.isfinite(value) and value == int(value))
        if raised:
            return verdict(not ok_in)
        return verdict(ok_in and r == str(int(value)))
    if fn == "serialize_boolean":
        if isinstance(value, float) and not math.isfinite(value):
            return verdict(raised)
        return verdict(not raised and type(r) is bool and r == (value != 0))
    return verdict(False)


# ----------------------------------------------------------------------------------------------
# symbolic side
def sym_input(sort: str):
    if sort == "float":
        return SFloat(z3.FP("v", FP))
    if sort == "int":
        return SInt(z3.BitVec("v", W))
    return SBool(z3.Bool("v"))


def finite(f):
    return z3.Not(z3.Or(z3.fpIsNaN(f), z3.fpIsInf(f)))


def integral(f):
    return z3.fpEQ(z3.fpRoundToIntegral(RTZ, f), f)


def in_range_bv(t):
    return z3.And(t >= bv(MINI), t <= bv(MAXI))


def in_range_fp(f):
    return z3.And(z3.fpGEQ(f, fpconst(float(MINI))), z3.fpLEQ(f, fpconst(float(MAXI))))


def accepts_int(v):
    """spec: the number is an integer within 32 bits"""
    if isinstance(v, SInt):
        return in_range_bv(v.t)
    if isinstance(v, SFloat):
        return z3.And(finite(v.t), integral(v.t), in_range_fp(v.t))
    return z3.BoolVal(False)


def exact_as_float(v):
    if isinstance(v, SFloat):
        return finite(v.t)
    if isinstance(v, SInt):
        f = z3.fpSignedToFP(RNE, v.t, FP)
        return z3.fpToSBV(RTZ, f, z3.BitVecSort(W + 8)) == z3.SignExt(8, v.t)
    return z3.BoolVal(False)


def same_int(v, r):
    """returned integer term r denotes the same number as input v"""
    rt = int_value(r)
    if rt is None:
        return None
    if isinstance(v, SInt):
        return rt == v.t
    if isinstance(v, SFloat):
        return z3.And(finite(v.t), integral(v.t), in_range_fp(v.t), z3.fpToSBV(RTZ, v.t, z3.BitVecSort(W)) == rt)
    if isinstance(v, SBool):
        return rt == z3.If(v.t, bv(1), bv(0))
    return None


def claims(fn: str, v, outs):
    """-> list of (description, z3 formula that must be UNSAT)"""
    q = []
    is_bool = isinstance(v, SBool)
    for k, o in enumerate(outs):
        tag = f"{fn}[{type(v).__name__}] outcome {k} ({o.kind})"
        if o.kind == "raise" and o.value not in ("GraphQLError",):
            q.append((tag + ": raises something other than GraphQLError", o.pc))
            continue
        if fn in ("serialize_int", "coerce_int"):
            if is_bool and fn == "coerce_int":
                if o.kind == "return":
                    q.append((tag + ": accepts a bool", o.pc))
                continue
            if o.kind == "return":
                same = same_int(v, o.value)
                if same is None:
                    q.append((tag + ": result is not an integer", o.pc))
                else:
                    q.append((tag + ": result out of 32-bit range or not equal to the input", z3.And(o.pc, z3.Not(z3.And(same, in_range_bv(int_value(o.value)))))))
            else:
                if not is_bool:
                    q.append((tag + ": rejects an integer within 32 bits", z3.And(o.pc, accepts_int(v))))
                else:
                    q.append((tag + ": serialize_int rejects a bool", o.pc))
        elif fn in ("serialize_float", "coerce_float"):
            if is_bool:
                if fn == "coerce_float" and o.kind == "return":
                    q.append((tag + ": accepts a bool", o.pc))
                continue
            if o.kind == "return":
                r = o.value
                if isinstance(r, SFloat):
                    if isinstance(v, SFloat):
                        q.append((tag + ": result not finite or not equal", z3.And(o.pc, z3.Not(z3.And(finite(r.t), z3.fpEQ(r.t, v.t))))))
                    else:
                        exact = z3.And(finite(r.t), integral(r.t), z3.fpToSBV(RTZ, r.t, z3.BitVecSort(W + 8)) == z3.SignExt(8, v.t))
                        q.append((tag + ": integer silently loses precision", z3.And(o.pc, z3.Not(exact))))
                else:
                    q.append((tag + ": result is not a float", o.pc))
            else:
                q.append((tag + ": rejects an exactly representable finite number", z3.And(o.pc, exact_as_float(v))))
        elif fn == "int_value_to_literal":
            if o.kind == "raise":
                q.append((tag + ": raises", o.pc))
            elif o.value is None:
                q.append((tag + ": no literal for an integer within 32 bits", z3.And(o.pc, accepts_int(v))))
            elif isinstance(o.value, Node) and o.value.cls == "IntValueNode":
                txt = o.value.fields.get("value")
                arg = txt.arg if isinstance(txt, Opaque) and txt.what == "str" else None
                same = same_int(v, arg) if arg is not None else None
                if same is None or is_bool:
                    q.append((tag + ": literal text is not the decimal rendering of an integer", o.pc))
                else:
                    q.append((tag + ": literal for a non-integer / out of range / different number", z3.And(o.pc, z3.Not(z3.And(same, accepts_int(v))))))
            else:
                q.append((tag + ": unexpected result", o.pc))
        elif fn == "serialize_id":
            if is_bool:
                if o.kind == "return":
                    q.append((tag + ": accepts a bool", o.pc))
                continue
            if o.kind == "return":
                arg = o.value.arg if isinstance(o.value, Opaque) and o.value.what == "str" else None
                if isinstance(v, SInt):
                    same = int_value(arg) == v.t if arg is not None and int_value(arg) is not None else None
                else:
                    same = z3.And(finite(v.t), integral(v.t)) if isinstance(arg, IntOfFloat) and arg.f is v else None
                q.append((tag + ": ID text is not the decimal rendering of the integral input", o.pc if same is None else z3.And(o.pc, z3.Not(same))))
            else:
                ok_in = z3.BoolVal(True) if isinstance(v, SInt) else z3.And(finite(v.t), integral(v.t))
                q.append((tag + ": rejects an integral number", z3.And(o.pc, ok_in)))
        elif fn == "serialize_boolean":
            if o.kind == "return":
                t = o.value
                want = (v.t != bv(0)) if isinstance(v, SInt) else (z3.Not(z3.fpIsZero(v.t)) if isinstance(v, SFloat) else v.t)
                got = t.t if isinstance(t, SBool) else (t if isinstance(t, (z3.BoolRef, bool)) else None)
                if got is None:
                    q.append((tag + ": result is not a bool", o.pc))
                else:
                    extra = finite(v.t) if isinstance(v, SFloat) else z3.BoolVal(True)
                    q.append((tag + ": wrong truth value or non-finite accepted", z3.And(o.pc, z3.Not(z3.And(extra, got == want)))))
            else:
                q.append((tag + ": rejects a finite number", z3.And(o.pc, finite(v.t) if isinstance(v, SFloat) else z3.BoolVal(True))))
    return q


def roundtrip_claims(tr: Translator, ser: str, coe: str, v, outs):
    q = []
    for k, o in enumerate(outs):
        if o.kind != "return" or isinstance(v, SBool):
            continue
        r = o.value
        if isinstance(r, IntOfFloat):
            r = SInt(int_value(r))
        if not isinstance(r, (SInt, SFloat)):
            continue
        for j, o2 in enumerate(tr.run(coe, [r])):
            tag = f"{coe}({ser}(v)) [{type(v).__name__}] outcomes {k}/{j}"
            if o2.kind == "raise":
                q.append((tag + ": emitted value rejected by input coercion", z3.And(o.pc, o2.pc)))
            else:
                if isinstance(r, SInt):
                    same = int_value(o2.value) == r.t if int_value(o2.value) is not None else None
                else:
                    same = z3.fpEQ(o2.value.t, r.t) if isinstance(o2.value, SFloat) else None
                q.append((tag + ": read back with a different meaning", z3.And(o.pc, o2.pc) if same is None else z3.And(o.pc, o2.pc, z3.Not(same))))
    return q


def model_value(m, v):
    x = m.eval(v.t, model_completion=True)
    if isinstance(v, SInt):
        return x.as_signed_long()
    if isinstance(v, SBool):
        return bool(z3.is_true(x))
    if x.isNaN():
        return float("nan")
    if x.isInf():
        return float("-inf") if x.isNegative() else float("inf")
    r = z3.simplify(z3.fpToReal(x))
    val = float(Fraction(r.numerator_as_long(), r.denominator_as_long()))
    return -0.0 if (val == 0 and x.isNegative()) else val


def restrict(v):
    """bounds of the E2 claim on the input"""
    if isinstance(v, SInt):
        lim = 2 ** (W - 2)
        return z3.And(v.t > bv(-lim), v.t < bv(lim))
    return z3.BoolVal(True)


def run_e2(fn: str, sort: str, cross_check: bool = False) -> dict:
    t0 = time.time()
    res = {"paths": 0, "ok": 0, "skipped": 0, "unknown_paths": 0, "refuted": 0, "exhausted": True, "samples": [],
           "counterexamples": [], "unknown_reasons": {}, "solver_queries": 0, "solver_seconds": 0.0, "queries": []}
    tr = Translator(scalars)
    v = sym_input(sort)
    try:
        outs = tr.run(fn, [v])
        qs = claims(fn, v, outs)
        if fn == "serialize_int":
            qs += roundtrip_claims(tr, fn, "coerce_int", v, outs)
        if fn == "serialize_float":
            qs += roundtrip_claims(tr, fn, "coerce_float", v, outs)
        # outcomes must cover every input (no fall-through / lost path)
        qs.append((f"{fn}[{sort}]: outcomes do not cover all inputs", z3.Not(z3.Or(*[o.pc for o in outs]))))
    except Unencodable as e:
        res.update(verdict="unknown", unknown_reasons={"Unencodable: " + str(e)[:200]: 1}, exhausted=False)
        return res
    for desc, formula in qs:
        r, m, dt, smt2 = check(z3.And(restrict(v), formula))
        res["paths"] += 1
        res["solver_queries"] += 1
        res["solver_seconds"] += dt
        entry = {"claim": desc, "z3": r, "seconds": round(dt, 3)}
        if "(error" in smt2:
            r = "unknown"
        if cross_check and r == "unsat":
            entry["cvc5"] = cvc5_check(smt2)
            if entry["cvc5"] == "sat":
                r = "unknown"
                entry["disagreement"] = True
        res["queries"].append(entry)
        if r == "unsat":
            res["ok"] += 1
        elif r == "sat":
            res["refuted"] += 1
            res["counterexamples"].append({"args": {"value": model_value(m, v)}, "claim": desc})
        else:
            res["unknown_paths"] += 1
            res["unknown_reasons"][desc[:80]] = 1
    res["samples"] = [{"claim": q["claim"], "solver": q["z3"]} for q in res["queries"][:2]]
    res["functions_encoded"] = tr.encoded
    res["e2_assumptions"] = tr.assumptions
    res["cpu_s"] = res["wall_s"] = round(time.time() - t0, 3)
    res["solver_seconds"] = round(res["solver_seconds"], 3)
    res["verdict"] = "refuted" if res["refuted"] else ("confirmed" if res["unknown_paths"] == 0 else "unknown")
    return res


def cvc5_check(smt2: str) -> str:
    import os
    import subprocess
    import tempfile

    with tempfile.NamedTemporaryFile("w", suffix=".smt2", delete=False) as f:
        f.write("(set-logic QF_BVFP)\n" + smt2)
        name = f.name
    try:
        p = subprocess.run(["cvc5", "--tlimit=60000", name], capture_output=True, text=True, timeout=90)
        out = p.stdout.strip().splitlines()
        return out[0] if out else "error"
    except Exception:
        return "timeout"
    finally:
        os.unlink(name)


# ----------------------------------------------------------------------------------------------
# translator validation: concrete inputs through the real function and through the encoding
BOUNDARY = {
    "float": [0.0, -0.0, 1.0, -1.0, 0.5, 1.5, 2.0**31, 2.0**31 - 1, -(2.0**31), -(2.0**31) - 1, 2.0**53, 2.0**53 + 2, 5e-324, 1.7976931348623157e308,
              float("nan"), float("inf"), float("-inf"), 1e100, -1e100, 123456789.0, 0.1],
    "int": [0, 1, -1, MAXI, MAXI + 1, MINI, MINI - 1, 2**53, 2**53 + 1, -(2**53) - 1, 2**60 + 1, -(2**60) - 1, 2**63, 2**64 + 1, 10**18, 7],
    "bool": [True, False],
}


def concrete_input(sort, x):
    if sort == "float":
        return SFloat(z3.FPVal(x, FP))
    if sort == "int":
        return SInt(z3.BitVecVal(x, W))
    return SBool(z3.BoolVal(x))


def describe_real(fn, x):
    try:
        r = getattr(scalars, fn)(x)
    except GraphQLError:
        return ("raise", "GraphQLError")
    if r is None:
        return ("return", None)
    if isinstance(r, IntValueNode):
        return ("return", ("IntValueNode", r.value))
    if isinstance(r, bool):
        return ("return", ("bool", r))
    if isinstance(r, int):
        return ("return", ("int", r))
    if isinstance(r, float):
        return ("return", ("float", repr(r)))
    if isinstance(r, str):
        return ("return", ("str", r))
    return ("return", ("other", repr(r)))


def describe_encoded(v, o: Outcome):
    if o.kind == "raise":
        return ("raise", o.value)
    r = o.value
    if r is None:
        return ("return", None)

    def num(x):
        t = int_value(x)
        if t is not None:
            st = z3.simplify(t)
            if not z3.is_bv_value(st):
                return ("int", "?")  # int(f) for |f| beyond the bit-vector width: outside the bound
            return ("int", st.as_signed_long())
        if isinstance(x, SFloat):
            fx = z3.simplify(x.t)
            if fx.isNaN():
                return ("float", "nan")
            if fx.isInf():
                return ("float", "-inf" if fx.isNegative() else "inf")
            q = z3.simplify(z3.fpToReal(fx))
            val = float(Fraction(q.numerator_as_long(), q.denominator_as_long()))
            if val == 0 and fx.isNegative():
                val = -0.0
            return ("float", repr(val))
        return None

    if isinstance(r, Node):
        txt = r.fields.get("value")
        n = num(txt.arg) if isinstance(txt, Opaque) and txt.what == "str" else None
        return ("return", (r.cls, str(n[1]) if n and n[0] == "int" else "?"))
    if isinstance(r, Opaque) and r.what == "str":
        n = num(r.arg)
        return ("return", ("str", str(n[1]) if n and n[0] == "int" else "?"))
    if isinstance(r, SBool):
        return ("return", ("bool", bool(z3.is_true(z3.simplify(r.t)))))
    if isinstance(r, (bool,)):
        return ("return", ("bool", r))
    if isinstance(r, z3.BoolRef):
        return ("return", ("bool", bool(z3.is_true(z3.simplify(r)))))
    n = num(r)
    if n:
        return ("return", n)
    return ("return", ("other", repr(r)))


def translator_validation(*, fn: str) -> bool:
    """Boundary inputs pushed through the real function and through the encoding must agree."""
    for sort, xs in BOUNDARY.items():
        for x in xs:
            if sort == "int" and abs(x) >= 2 ** (W - 2):
                continue
            tr = Translator(scalars)
            v = concrete_input(sort, x)
            try:
                outs = tr.run(fn, [v])
            except Unencodable:
                return verdict(True)  # the obligation itself reports 'inconclusive: Unencodable'
            live = [o for o in outs if z3.is_true(z3.simplify(o.pc))]
            if len(live) != 1:
                return verdict(False)
            real = describe_real(fn, x)
            enc = describe_encoded(v, live[0])
            if real[0] == "return" and real[1] and real[1][0] == "int" and enc[1] and enc[1][0] == "bool":
                enc = ("return", ("int", int(enc[1][1])))  # serialize_float(True) returns the int 1
            if enc[1] and isinstance(enc[1], tuple) and enc[1][1] == "?":
                continue  # outside the E2 bound (stated)
            if real != enc:
                print("TRANSLATOR MISMATCH", fn, sort, x, real, enc)
                return verdict(False)
    return verdict(True)


BOUNDS = {
    "quick": [f"E2: all IEEE-754 doubles (incl. nan, +-inf, -0.0, subnormals), all integers |i| < 2^{W-2}, both bools; functions: " + ", ".join(FUNCS)],
    "thorough": [f"as quick, plus cvc5 cross-check of every unsat verdict"],
}
ASSUMPTIONS = [
    f"E2: Python int encoded as {W}-bit signed bit-vector (ints beyond +-2^{W-2} are outside the E2 claim; the OverflowError handler of float(int) is unreachable within it)",
    "E2 trusted base: the translator's semantics of int(float), float(int) and int/float comparison (vf/smt.py docstring), validated on every run against the real functions on a boundary table",
]


def replay_target(cell):
    return "numeric_case", {"fn": cell["fn"]}


def obligations(tier):
    obs = []
    for fn in FUNCS:
        for sort in SORTS:
            obs.append(dict(fn="run_e2", cell=dict(fn=fn, sort=sort, cross_check=tier == "thorough"), budget_s=300, engine="E2"))
    return obs


def corpus():
    for fn in FUNCS:
        yield "translator_validation", dict(fn=fn), {}
        for sort, xs in BOUNDARY.items():
            for x in xs:
                yield "numeric_case", dict(fn=fn), dict(value=x)
