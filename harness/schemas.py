"""Small concrete schemas shared by harnesses (built programmatically, explicit resolvers)."""
from __future__ import annotations

from graphql import (
    GraphQLArgument, GraphQLBoolean, GraphQLEnumType, GraphQLField, GraphQLFloat, GraphQLID, GraphQLInputField,
    GraphQLInputObjectType, GraphQLInt, GraphQLInterfaceType, GraphQLList, GraphQLNonNull, GraphQLObjectType,
    GraphQLSchema, GraphQLString, GraphQLUnionType,
)


def pipeline_schema(hooks=None):
    """Schema for C01: every input kind as an argument; resolvers echo or raise on demand.
    ``hooks`` is a dict: field name -> callable(args) used as resolver body."""
    hooks = hooks or {}

    def res(name, default):
        def r(_src, _info, **args):
            h = hooks.get(name)
            if h is not None:
                return h(args)
            return default
        return r

    Color = GraphQLEnumType("Color", {"RED": 0, "GREEN": 1})
    Inp = GraphQLInputObjectType("Inp", lambda: {
        "a": GraphQLInputField(GraphQLInt, default_value=7),
        "b": GraphQLInputField(GraphQLNonNull(GraphQLString)),
        "n": GraphQLInputField(Inp),
    })
    One = GraphQLInputObjectType("One", {"x": GraphQLInputField(GraphQLInt), "y": GraphQLInputField(GraphQLString)}, is_one_of=True)
    Obj = GraphQLObjectType("Obj", lambda: {
        "id": GraphQLField(GraphQLNonNull(GraphQLID), resolve=res("Obj.id", "1")),
        "name": GraphQLField(GraphQLString, resolve=res("Obj.name", "n")),
        "self": GraphQLField(Obj, resolve=res("Obj.self", {})),
        "req": GraphQLField(GraphQLNonNull(GraphQLInt), resolve=res("Obj.req", 1)),
    })
    Query = GraphQLObjectType("Query", {
        "int": GraphQLField(GraphQLInt, {"x": GraphQLArgument(GraphQLInt)}, resolve=res("int", 1)),
        "float": GraphQLField(GraphQLFloat, {"x": GraphQLArgument(GraphQLFloat)}, resolve=res("float", 1.5)),
        "str": GraphQLField(GraphQLString, {"x": GraphQLArgument(GraphQLString)}, resolve=res("str", "s")),
        "bool": GraphQLField(GraphQLBoolean, {"x": GraphQLArgument(GraphQLBoolean)}, resolve=res("bool", True)),
        "id": GraphQLField(GraphQLID, {"x": GraphQLArgument(GraphQLID)}, resolve=res("id", "i")),
        "color": GraphQLField(Color, {"x": GraphQLArgument(Color)}, resolve=res("color", 0)),
        "list": GraphQLField(GraphQLList(GraphQLInt), {"x": GraphQLArgument(GraphQLList(GraphQLNonNull(GraphQLInt)))}, resolve=res("list", [1, 2])),
        "inp": GraphQLField(GraphQLString, {"x": GraphQLArgument(Inp)}, resolve=res("inp", "ok")),
        "one": GraphQLField(GraphQLString, {"x": GraphQLArgument(One)}, resolve=res("one", "ok")),
        "obj": GraphQLField(Obj, resolve=res("obj", {})),
        "objs": GraphQLField(GraphQLList(GraphQLNonNull(Obj)), resolve=res("objs", [{}, {}])),
        "nn": GraphQLField(GraphQLNonNull(GraphQLInt), resolve=res("nn", 1)),
    })
    Mutation = GraphQLObjectType("Mutation", {
        "m": GraphQLField(GraphQLInt, resolve=res("m", 1)),
        "mobj": GraphQLField(Obj, resolve=res("mobj", {})),
    })
    Subscription = GraphQLObjectType("Subscription", {
        "s": GraphQLField(GraphQLInt, resolve=res("s", 1)),
        "sobj": GraphQLField(Obj, resolve=res("sobj", {})),
    })
    return GraphQLSchema(Query, Mutation, Subscription, types=[Obj, Inp, One, Color])
