"""C13: a document that passes validation cannot go wrong at execution time."""
from __future__ import annotations

from vf import assume, concrete, forked, verdict

from graphql import GraphQLList, GraphQLNonNull, build_schema, execute_sync, parse, validate
from graphql.execution.values import get_variable_values
from graphql.validation.rules.variables_in_allowed_position import allowed_variable_usage

from harness.C02_execute import SDL, make_world, resolvers_for, same_ordered
from vf.oracles.spec_execute import spec_execute

SCHEMA = build_schema(SDL)

VTYPES = ["Int", "Int!", "[Int!]", "[Int]", "String", "Boolean!", "ID", "ID!", "Tag", "Flt", "[Int!]!", "Float"]
VDEFS = ["", " = 1", " = null", " = [1]", ' = "s"', " = A"]
# every place a variable can be used in the template ({V} is replaced by $v, the others by a constant)
POSITIONS = [
    ("echo_x", "echo(x: {V})", "echo(x: 1)"),
    ("echo_l", "e2: echo(l: {V})", "e2: echo(l: [1])"),
    ("echo_l_item", "e3: echo(l: [1, {V}])", "e3: echo(l: [1, 2])"),
    ("echo_f", "e4: echo(f: {V})", "e4: echo(f: {{min: 1}})"),
    ("echo_f_min", "e5: echo(f: {{min: {V}}})", "e5: echo(f: {{min: 2}})"),
    ("echo_f_words", "e6: echo(f: {{words: [{V}]}})", 'e6: echo(f: {{words: ["w"]}})'),
    ("echo_t", "e7: echo(t: {V})", "e7: echo(t: B)"),
    ("echo_s", "e8: echo(s: {V})", 'e8: echo(s: "x")'),
    ("node_id", "node(id: {V}) {{ id }}", 'node(id: "p1") {{ id }}'),
    ("user_id", "user(id: {V}) {{ id }}", "user {{ id }}"),
    ("posts_first", "me {{ posts(first: {V}) {{ id }} }}", "me {{ posts {{ id }} }}"),
    ("posts_flt", "m2: me {{ posts(flt: {V}) {{ id }} }}", "m2: me {{ posts(flt: {{max: 1}}) {{ id }} }}"),
    ("skip", "m3: me @skip(if: {V}) {{ id }}", "m3: me @skip(if: false) {{ id }}"),
    ("sum_item", "sum(nums: [7, {V}])", "sum(nums: [7])"),
    ("sum_words", "s2: sum(f: {{words: [{V}]}})", "s2: sum"),
]
RUNTIME = ["absent", None, 1, "s", True, [1], {"min": 1}, 2**31, "A", 1.5, [1, None]]


EXPECTED = [None]  # the specification oracle's result for the last run_valid call


def run_valid(text: str, variables: dict):
    """-> None if the document is not valid / the variables are not accepted, else the result"""
    doc = parse(text)
    if validate(SCHEMA, doc):
        return None
    op = doc.definitions[0]
    coerced = get_variable_values(SCHEMA, op.variable_definitions or (), variables)
    if isinstance(coerced, list):
        return None
    # conforming data, including the extreme values of the Int domain
    root, _ = make_world("x", -(2**31), 2**31 - 1, 1.5, False, 2, 0)
    schema = build_schema(SDL)
    table = resolvers_for(schema, None, [])
    real = execute_sync(schema, doc, root, variable_values=variables)
    EXPECTED[0] = spec_execute(schema, doc, variables, table, root)
    return real


def _variable_position(vt, vdef, pos, rv) -> object:
    name, with_var, _const = POSITIONS[pos]
    text = "query Q($v: " + VTYPES[vt] + VDEFS[vdef] + ") { " + with_var.format(V="$v") + " }"
    variables = {} if RUNTIME[rv] == "absent" else {"v": RUNTIME[rv]}
    try:
        r = run_valid(text, variables)
    except Exception:
        return False
    if r is None:
        return None
    if r.errors is None:
        return True
    # the single exception the specification defers to run time: a nullable variable that is
    # null (given, or by its default) reaching a non-null position admitted because a default exists
    nullable = not VTYPES[vt].endswith("!")
    value_is_null = RUNTIME[rv] is None or (RUNTIME[rv] == "absent" and VDEFS[vdef] == " = null")
    return nullable and value_is_null


def variable_positions(vt: int, vdef: int, rv: int, *, pos: int) -> bool:
    """Every variable type x default x usage position x runtime value: if validation accepts the
    document and variable coercion accepts the value, execution over conforming data is error free."""
    vt = forked(vt, 0, len(VTYPES))
    vdef = forked(vdef, 0, len(VDEFS))
    rv = forked(rv, 0, len(RUNTIME))
    r = concrete(_variable_position, vt, vdef, pos, rv)
    assume(r is not None)
    return verdict(r)


LITERALS = ["1", '"s"', "null", "1.5", "true", "A", "[1]", "[1, null]", "{min: 1}", "{zz: 1}", '{words: ["a", null]}', "2147483648", '"p1"', "[[1]]", "{}"]


def _literal_position(pos, lit) -> object:
    name, with_var, _const = POSITIONS[pos]
    text = "{ " + with_var.format(V=LITERALS[lit]) + " }"
    try:
        r = run_valid(text, {})
    except Exception:
        return False
    if r is None:
        return None
    return r.errors is None


def literal_positions(lit: int, *, pos: int) -> bool:
    """Every literal at every argument position: accepted by validation => error-free execution."""
    lit = forked(lit, 0, len(LITERALS))
    r = concrete(_literal_position, pos, lit)
    assume(r is not None)
    return verdict(r)


FIELDS1 = ["id", "name", "score", "best { id }", "best", "friends { nn }", "grid", "nn { x }", "author { id }", "posts { author { nn } }", "__typename", "zz"]
SPREADS = ["", "...UF @skip(if: true) id ...UF", "...UF @include(if: false) ... { ...UF }", "...UF", "...PF", "...NF", "...IF", "... on User { age }", "... on Post { score }", "... on Item { __typename }", "... on Tag { x }", "... { id }", "...UF ...UF"]
FIELDS2 = ["", "id", "... on Post { score author { nn } }", "... on User { friends { id } }", "age", "... on Item { ... on Post { id } }", "...PF"]
ROOTS = ["me", "node(id: \"p1\")", "items", "strict", "user"]


def _shape(root, f1, sp, f2) -> object:
    sel = FIELDS1[f1] + " " + SPREADS[sp] + " " + FIELDS2[f2]
    frags = {"UF": "fragment UF on User { name best { name } }", "PF": "fragment PF on Post { score }",
             "NF": "fragment NF on Node { id }", "IF": "fragment IF on Item { ... on User { id } }"}
    text = "{ r: " + ROOTS[root] + " { " + sel + " } } " + " ".join(d for n, d in frags.items() if "..." + n in sel)
    try:
        r = run_valid(text, {})
    except Exception:
        return False
    if r is None:
        return None
    if r.errors is not None:
        return False
    # exactly the shape the selection set and the types prescribe (specification oracle)
    return EXPECTED[0][0] == "ok" and same_ordered(r.data, EXPECTED[0][1])


def selection_shapes(f1: int, sp: int, f2: int, *, root: int) -> bool:
    """Fields / spreads / type conditions on every kind of parent (object, interface, union list,
    non-null object): accepted by validation => error-free execution with the selected keys."""
    f1 = forked(f1, 0, len(FIELDS1))
    sp = forked(sp, 0, len(SPREADS))
    f2 = forked(f2, 0, len(FIELDS2))
    r = concrete(_shape, root, f1, sp, f2)
    assume(r is not None)
    return verdict(r)


def _attributable(corrupt, root_i) -> bool:
    """With non-conforming data every error points at the corrupted position."""
    name, age, nn = "x", 30, 1
    raise_idx = 0
    if corrupt == 0:
        nn = None
    elif corrupt == 1:
        age = 2**31
    elif corrupt == 2:
        raise_idx = 1  # User.name raises
    elif corrupt == 3:
        raise_idx = 3  # Post.author raises
    bad_field = ["nn", "age", "name", "author"][corrupt]
    text = "{ r: " + ROOTS[root_i] + " { ... on User { id name age nn best { name age } posts { author { id } } } ... on Post { id author { name } } } }"
    doc = parse(text)
    if validate(SCHEMA, doc):
        return True
    root, raising = make_world(name, age, nn, 1.5, False, 2, raise_idx)
    schema = build_schema(SDL)
    resolvers_for(schema, raising, [])
    r = execute_sync(schema, doc, root)
    for e in r.errors or []:
        if bad_field not in [seg for seg in e.path if isinstance(seg, str)]:
            return False
    return True


def errors_attributable(corrupt: int, root_i: int) -> bool:
    corrupt = forked(corrupt, 0, 4)
    root_i = forked(root_i, 0, len(ROOTS))
    try:
        return verdict(concrete(_attributable, corrupt, root_i))
    except Exception:
        return verdict(False)


ONEOF_SDL = """
input Pick @oneOf { a: String b: Int }
input Wrap { pick: Pick! picks: [Pick!] }
type Query { p(arg: Pick): String q(arg: Pick!): String r(arg: [Pick!]): String s(arg: [Pick]): String
  t(arg: [Pick!]! = [{b: 1}]): String w(arg: Wrap): String }
"""
ONEOF_SCHEMA = build_schema(ONEOF_SDL)
O_VTYPES = ["String", "String!", "Int", "Int!", "Pick", "Pick!", "[Pick!]"]
O_VDEFS = ["", " = null", ' = "d"', " = 1", " = {b: 2}"]
O_USES = [
    "p(arg: {a: $v})", "q(arg: {a: $v})", "r(arg: [{a: $v}])", "s(arg: [{b: $v}])", "r(arg: {a: $v})", "s(arg: {a: $v})", "t(arg: [{a: $v}])",
    "q(arg: $v)", "r(arg: [$v])", "s(arg: [$v])", "r(arg: $v)", "w(arg: {pick: {a: $v}})", "w(arg: {picks: [{b: $v}]})", "w(arg: {pick: $v})",
    "q(arg: {a: $v, b: 1})", "p(arg: {b: $v})",
]
O_RUNTIME = ["absent", None, "s", 1, {"a": "x"}, {"a": None}, {"a": "x", "b": 1}, [{"b": 1}], {}]


def _oneof_position(vt, vdef, use, rv) -> object:
    text = "query Q($v: " + O_VTYPES[vt] + O_VDEFS[vdef] + ") { " + O_USES[use] + " }"
    variables = {} if O_RUNTIME[rv] == "absent" else {"v": O_RUNTIME[rv]}
    try:
        doc = parse(text)
        if validate(ONEOF_SCHEMA, doc):
            return None
        coerced = get_variable_values(ONEOF_SCHEMA, doc.definitions[0].variable_definitions or (), variables)
        if isinstance(coerced, list):
            return None
        r = execute_sync(ONEOF_SCHEMA, doc, {}, variable_values=variables)
    except Exception:
        return False
    if r.errors is None:
        return True
    # the run-time case the specification allows: a nullable variable that is null reaching a
    # non-null position admitted because a default exists.  A OneOf member position is NOT such
    # a position: there the variable itself must be non-null, default or not.
    in_oneof_member = "{a: $v" in O_USES[use] or "{b: $v" in O_USES[use]
    nullable = not O_VTYPES[vt].endswith("!")
    value_is_null = O_RUNTIME[rv] is None or (O_RUNTIME[rv] == "absent" and O_VDEFS[vdef] in ("", " = null"))
    return nullable and value_is_null and not in_oneof_member


def oneof_positions(vt: int, vdef: int, rv: int, *, use: int) -> bool:
    """Variables inside and around OneOf input objects at nullable, non-null, list-item and
    nested positions: accepted by validation and variable coercion => error-free execution."""
    vt = forked(vt, 0, len(O_VTYPES))
    vdef = forked(vdef, 0, len(O_VDEFS))
    rv = forked(rv, 0, len(O_RUNTIME))
    r = concrete(_oneof_position, vt, vdef, use, rv)
    assume(r is not None)
    return verdict(r)


WRAPS = ["T", "T!", "[T]", "[T]!", "[T!]", "[T!]!", "[[T]]", "[[T!]!]"]


def _mk(base, w):
    t = base
    spec = WRAPS[w]
    # build from the inside out
    def build(s):
        if s.endswith("!"):
            return GraphQLNonNull(build(s[:-1]))
        if s.startswith("["):
            return GraphQLList(build(s[1:-1]))
        return t
    return build(spec)


def spec_usage_allowed(vw: str, lw: str, var_default: bool, loc_default: bool) -> bool:
    """IsVariableUsageAllowed + AreTypesCompatible, on wrapper strings over one named type."""
    def compatible(v, l):
        if l.endswith("!"):
            return v.endswith("!") and compatible(v[:-1], l[:-1])
        if v.endswith("!"):
            return compatible(v[:-1], l)
        if l.startswith("["):
            return v.startswith("[") and compatible(v[1:-1], l[1:-1])
        if v.startswith("["):
            return False
        return v == l
    if lw.endswith("!") and not vw.endswith("!"):
        if not (var_default or loc_default):
            return False
        return compatible(vw, lw[:-1])
    return compatible(vw, lw)


def variable_usage_unit(vw: int, lw: int, var_default: bool, var_default_null: bool, loc_default: bool) -> bool:
    """allowed_variable_usage vs the specification's IsVariableUsageAllowed on every pair of
    wrapper stacks (8 x 8) x variable default (none / null / non-null) x location default."""
    from graphql import GraphQLInt, Undefined
    from graphql.language import parse_value

    vw, lw = forked(vw, 0, len(WRAPS)), forked(lw, 0, len(WRAPS))
    vt, lt = _mk(GraphQLInt, vw), _mk(GraphQLInt, lw)
    vd = None
    if var_default:
        vd = parse_value("null") if var_default_null else parse_value("1")
    ld = 1 if loc_default else Undefined
    try:
        real = allowed_variable_usage(SCHEMA, vt, vd, lt, ld)
    except Exception:
        return verdict(False)
    has_non_null_var_default = bool(var_default) and not var_default_null
    return verdict(real == spec_usage_allowed(WRAPS[vw], WRAPS[lw], has_non_null_var_default, bool(loc_default)))


BOUNDS = {
    "quick": [
        "variable positions: 12 variable types x 6 defaults x 15 usage positions (arguments, list items, input object fields, directive argument) x 11 runtime values",
        "literals: 15 literals x 15 positions; selections: 12 fields x 13 spreads x 6 nested selections x 5 kinds of parent",
        "allowed_variable_usage vs IsVariableUsageAllowed: 8x8 wrapper stacks x variable default none/null/non-null x location default",
        "OneOf: 7 variable types x 5 defaults x 16 uses (member of a OneOf literal at nullable / non-null / list-item / bare-object-at-list / nested positions, whole OneOf values, two-member literals) x 9 runtime values",
        "non-conforming data: 4 corruptions x 5 parents, every error path contains the corrupted field",
    ],
    "thorough": ["same (finite families, fully explored)"],
}
ASSUMPTIONS = [
    "schema and data graph of C02's templates; custom scalars and rules outside specified_rules are outside",
    "the one run-time case the specification allows (nullable variable that is null reaching a non-null position admitted because of a default) is recognised from the template and exempted",
]


def obligations(tier):
    B = 900 if tier == "thorough" else 150
    obs = []
    for pos in range(len(POSITIONS)):
        obs.append(dict(fn="variable_positions", cell=dict(pos=pos), budget_s=B))
        obs.append(dict(fn="literal_positions", cell=dict(pos=pos), budget_s=B))
    for root in range(len(ROOTS)):
        obs.append(dict(fn="selection_shapes", cell=dict(root=root), budget_s=B))
    for use in range(len(O_USES)):
        obs.append(dict(fn="oneof_positions", cell=dict(use=use), budget_s=B))
    obs.append(dict(fn="errors_attributable", cell={}, budget_s=B))
    obs.append(dict(fn="variable_usage_unit", cell={}, budget_s=B))
    return obs


def corpus():
    for pos in range(len(POSITIONS)):
        yield "variable_positions", dict(pos=pos), dict(vt=0, vdef=0, rv=2)
        yield "variable_positions", dict(pos=pos), dict(vt=2, vdef=3, rv=5)
        yield "literal_positions", dict(pos=pos), dict(lit=0)
        yield "literal_positions", dict(pos=pos), dict(lit=12)
    for root in range(len(ROOTS)):
        yield "selection_shapes", dict(root=root), dict(f1=0, sp=0, f2=0)
        yield "selection_shapes", dict(root=root), dict(f1=3, sp=2, f2=1)
    for use in range(len(O_USES)):
        yield "oneof_positions", dict(use=use), dict(vt=1, vdef=0, rv=2)
        yield "oneof_positions", dict(use=use), dict(vt=5, vdef=0, rv=4)
    yield "errors_attributable", {}, dict(corrupt=0, root_i=0)
    yield "variable_usage_unit", {}, dict(vw=0, lw=1, var_default=True, var_default_null=False, loc_default=False)
    yield "variable_usage_unit", {}, dict(vw=0, lw=1, var_default=False, var_default_null=False, loc_default=False)
