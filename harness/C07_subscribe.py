"""C07: a subscription maps source events to responses one-to-one and in order."""
from __future__ import annotations

from typing import Optional

from vf import assume, concrete, forked, verdict
from vf import stubs
from vf.detloop import DetLoop, Hang, Scheduler
from vf.oracles.spec_execute import landings, spec_execute

import graphql.type.scalars as scalars
import graphql.type.definition as definition
import graphql.execution.executor as executor
import graphql.execution.execute as execute_mod
from graphql import ExecutionResult, GraphQLError, build_schema, parse, subscribe

stubs.const_inspect(scalars, definition, executor, execute_mod)

SDL = """
type User { name: String! }
type Msg { id: Int! text: String sender: User }
type Query { x: Int }
type Subscription { msgs(room: Int = 1): Msg count: Int! }
"""
DOCS = [
    parse("subscription ($r: Int) { msgs(room: $r) { id text sender { name } } }"),
    parse("subscription { count }"),
    parse("subscription { m: msgs { text ...F } } fragment F on Msg { sender { name } id }"),
]
ROOT_VALUE = {"msgs": {"id": 99, "text": "from root value", "sender": None}, "count": 99}


class Boom(Exception):
    pass


def event_payload(kind: int, idv):
    """0 full, 1 id missing (non-null error -> msgs null), 2 sender with null name (error bubbles to
    sender), 3 the event itself is None, 4 empty dict, 5 text only"""
    if kind == 3:
        return None
    msg = [
        {"id": idv, "text": "t", "sender": {"name": "n"}},
        {"id": None, "text": "t", "sender": None},
        {"id": idv, "text": None, "sender": {"name": None}},
        None,
        {},
        {"id": idv, "text": "only"},
    ][kind]
    return {"msgs": msg, "count": idv}


class CustomSource:
    """An async iterator that is not an async generator."""

    def __init__(self, gen, aclose_mode):
        self.gen = gen
        self.aclose_mode = aclose_mode  # 0 none, 1 ok, 2 raises
        self.closed = 0

    def __aiter__(self):
        return self

    async def __anext__(self):
        return await self.gen.__anext__()

    def __getattr__(self, name):
        if name == "aclose" and self.aclose_mode != 0:
            async def aclose():
                self.closed += 1
                if self.aclose_mode == 2:
                    raise Boom("close failed")
            return aclose
        raise AttributeError(name)


def install(schema, sched, events, fail_at, creation, source_kind, name_async, log):
    """creation: 0 ok, 1 resolver raises, 2 returns a non-iterable, 3 returns a GraphQLError,
    4 raises GraphQLError, 5 awaitable then ok, 6 awaitable then raises"""
    state = {"started": 0, "finalised": 0}

    async def source():
        state["started"] += 1
        try:
            for k, ev in enumerate(events):
                if fail_at == k:
                    raise Boom("source failed")
                got = await sched.future(ev, None, "event" + str(k))
                yield got
            if fail_at == len(events):
                raise Boom("source failed at end")
        finally:
            state["finalised"] += 1

    def make_source():
        g = source()
        if source_kind == 0:
            return g
        return CustomSource(g, source_kind - 1)

    def subscribe_fn(_root, _info, **args):
        log.append(("subscribe", tuple(sorted(args.items()))))
        if creation == 1:
            raise Boom("no stream")
        if creation == 2:
            return 42
        if creation == 3:
            return GraphQLError("returned error")
        if creation == 4:
            raise GraphQLError("raised error")
        if creation in (5, 6):
            async def later():
                await sched.future(None, None, "creating")
                if creation == 6:
                    raise Boom("late failure")
                return make_source()
            return later()
        return make_source()

    sub = schema.subscription_type
    for fname in ("msgs", "count"):
        sub.fields[fname].subscribe = subscribe_fn
        sub.fields[fname].resolve = lambda ev, _info, fname=fname, **_a: (ev or {}).get(fname) if isinstance(ev, dict) or ev is None else None
    user = schema.get_type("User")

    def name_resolver(src, _info):
        v = src.get("name")
        if name_async:
            async def later():
                return await sched.future(v, None, "name")
            return later()
        return v
    user.fields["name"].resolve = name_resolver
    return state


def oracle_resolvers():
    def prop(name):
        return lambda src, args: (src or {}).get(name) if isinstance(src, dict) or src is None else None
    return {("Subscription", "msgs"): prop("msgs"), ("Subscription", "count"): prop("count"), ("Msg", "id"): prop("id"),
            ("Msg", "text"): prop("text"), ("Msg", "sender"): prop("sender"), ("User", "name"): prop("name")}


def run_subscription(doc_i, events, fail_at, creation, source_kind, name_async, room, choices, stop_after=None):
    schema = build_schema(SDL)
    loop = DetLoop()
    sched = Scheduler(loop, choices)
    log = []
    state = install(schema, sched, events, fail_at, creation, source_kind, name_async, log)
    variables = {} if room is None else {"r": room}
    out = {"responses": [], "error": None, "early": None, "state": state, "log": log, "hang": False}
    with loop:
        try:
            stream, exc = sched.drive(subscribe(schema, DOCS[doc_i], ROOT_VALUE, variable_values=variables))
            if exc is not None:
                out["error"] = exc
                return out, loop, sched
            if isinstance(stream, ExecutionResult):
                out["early"] = stream
                return out, loop, sched
            while True:
                r, exc = sched.drive(stream.__anext__())
                if exc is not None:
                    if not isinstance(exc, StopAsyncIteration):
                        out["error"] = exc
                    break
                out["responses"].append(r)
                if len(out["responses"]) > len(events) + 1:
                    break
            sched.drain()
        except Hang:
            out["hang"] = True
    return out, loop, sched


def expected_responses(doc_i, events, room):
    schema = build_schema(SDL)
    variables = {} if room is None else {"r": room}
    exp = []
    for ev in events:
        r = spec_execute(schema, DOCS[doc_i], variables, oracle_resolvers(), ev)
        exp.append(r)
    return exp


def same_response(real, spec) -> bool:
    if spec[0] != "ok":
        return False
    _ok, data, errors, _calls = spec
    if real.data != data:
        return False
    # compared as nulled positions: with awaitable resolvers a sibling below an already nulled
    # parent is cancelled and may not get to report its own error
    return landings(real.data, [tuple(e.path) for e in (real.errors or [])]) == landings(data, errors)


def one_to_one(k0: int, k1: int, k2: int, id0: int, id1: int, fail_at: int, room: Optional[int], c0: int, c1: int, c2: int,
               *, doc: int, source_kind: int, name_async: bool, n: int) -> bool:
    """Exactly one response per event, in order, each equal to executing the selection set with
    the event as root value; a source failure surfaces after the earlier responses; the stream
    ends exactly when the source ends; errors of one event never leak into another response."""
    kinds = [forked(k0, 0, 6), forked(k1, 0, 6), forked(k2, 0, 6)][:n]
    fail_at = forked(fail_at, -1, n + 1)
    room_c = None if room is None else forked(room, 0, 3)
    idpool = [5, 2**31, -7]  # in range, out of the Int range (field error), negative
    ids = [idpool[forked(id0, 0, 3)], idpool[forked(id1, 0, 3)], 5]
    events = [event_payload(kinds[i], ids[i]) for i in range(n)]
    return verdict(concrete(_one_to_one, doc, events, fail_at, source_kind, name_async, room_c, [c0, c1, c2]))


def _one_to_one(doc, events, fail_at, source_kind, name_async, room, choices) -> bool:
    try:
        out, loop, sched = run_subscription(doc, events, fail_at, 0, source_kind, name_async, room, choices)
        exp = expected_responses(doc, events, room)
    except Exception:
        return False
    if out["hang"] or out["early"] is not None:
        return False
    n_expected = len(events) if fail_at < 0 else fail_at
    if len(out["responses"]) != n_expected:
        return False
    for r, e in zip(out["responses"], exp):
        if not same_response(r, e):
            return False
    if fail_at >= 0:
        if not isinstance(out["error"], Boom) or "source" not in str(out["error"]):
            return False
    elif out["error"] is not None:
        return False
    # the subscription resolver got the coerced argument exactly once
    want_room = 1 if (room is None or doc != 0) else room
    if doc != 1 and out["log"] != [("subscribe", (("room", want_room),))]:
        return False
    return not loop.pending_tasks()


def creation_failure(creation: int, c0: int, *, doc: int) -> bool:
    """A failure while creating the source yields a single errors-only response."""
    creation = forked(creation, 1, 7)
    return verdict(concrete(_creation_failure, doc, creation, [c0]))


def _creation_failure(doc, creation, choices) -> bool:
    try:
        out, loop, sched = run_subscription(doc, [event_payload(0, 1)], -1, creation, 0, False, None, choices)
    except Exception:
        return False
    if creation == 5:
        return out["early"] is None and out["error"] is None and len(out["responses"]) == 1
    early = out["early"]
    if not isinstance(early, ExecutionResult) or out["responses"] or out["error"] is not None:
        return False
    return early.data is None and bool(early.errors) and len(early.errors) == 1 and out["state"]["started"] == 0


def variables_rejected(kind: int, *, doc: int) -> bool:
    """Uncoercible variables: a single errors-only response, the source is never created."""
    kind = forked(kind, 0, 3)
    bad = ["x", 1.5, [1, 2]][kind]
    schema = build_schema(SDL)
    log = []
    loop = DetLoop()
    sched = Scheduler(loop, [])
    install(schema, sched, [], -1, 0, 0, False, log)
    with loop:
        r, exc = sched.drive(subscribe(schema, DOCS[0], None, variable_values={"r": bad}))
    return verdict(exc is None and isinstance(r, ExecutionResult) and r.data is None and bool(r.errors) and not log)


BOUNDS = {
    "quick": [
        "3 subscription documents; 0..3 events with symbolic payload kind (6 kinds incl. payloads causing field errors, the event None, missing keys) and ids from {in range, out of the 32-bit range, negative}; source failure at any position or none; argument from a variable (absent / 0..2); source as async generator or custom async iterator (without aclose / aclose ok / aclose raises); sync or awaitable nested resolver with symbolic completion decisions",
        "7 ways of failing (or delaying) source creation; uncoercible variables",
    ],
    "thorough": ["same, larger budget"],
}
ASSUMPTIONS = [
    "deterministic FIFO event loop without timers; @defer/@stream inside subscriptions are outside the claim",
    "per-event expected responses come from the specification oracle of C02 (vf/oracles/spec_execute.py)",
]


def obligations(tier):
    th = tier == "thorough"
    B = 1800 if th else 60
    obs = []
    for doc in range(3):
        for sk in range(4):
            for na in (False, True):
                if doc == 1 and na:
                    continue
                for n in range(4):
                    obs.append(dict(fn="one_to_one", cell=dict(doc=doc, source_kind=sk, name_async=na, n=n), budget_s=B, expect_confirm=th or n < 3))
        obs.append(dict(fn="creation_failure", cell=dict(doc=doc), budget_s=B))
    obs.append(dict(fn="variables_rejected", cell=dict(doc=0), budget_s=B))
    return obs


def corpus():
    base = dict(k0=0, k1=1, k2=2, id0=0, id1=1, fail_at=-1, room=None, c0=0, c1=0, c2=0)
    for doc in range(3):
        for sk in range(4):
            yield "one_to_one", dict(doc=doc, source_kind=sk, name_async=False, n=3), dict(base)
            yield "one_to_one", dict(doc=doc, source_kind=sk, name_async=doc != 1, n=3), dict(base, k0=3, k1=4, k2=5, fail_at=2, room=2)
            yield "one_to_one", dict(doc=doc, source_kind=sk, name_async=False, n=0), dict(base, fail_at=0)
        for c in range(1, 7):
            yield "creation_failure", dict(doc=doc), dict(creation=c, c0=0)
    yield "variables_rejected", dict(doc=0), dict(kind=0)
