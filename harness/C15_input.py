"""C15: input coercion and input validation agree on values, literals and variables."""
from __future__ import annotations

import math

from vf import assume, fixlen, forked, verdict
from vf import stubs

import graphql.type.scalars as scalars
import graphql.type.definition as definition
import graphql.utilities.validate_input_value as viv
from graphql import (
    GraphQLArgument, GraphQLBoolean, GraphQLEnumType, GraphQLField, GraphQLFloat, GraphQLID, GraphQLInputField,
    GraphQLInputObjectType, GraphQLInt, GraphQLList, GraphQLNonNull, GraphQLObjectType, GraphQLSchema, GraphQLString,
    Undefined, parse, print_ast, validate,
)
from graphql.execution.values import (
    FragmentVariableValues, FragmentVariableValueSource, VariableValues, VariableValueSource, get_variable_values,
)
from graphql.language.ast import (
    BooleanValueNode, EnumValueNode, FloatValueNode, IntValueNode, ListValueNode, NameNode, NullValueNode, ObjectFieldNode,
    ObjectValueNode, StringValueNode, VariableNode,
)
from graphql.type import is_enum_type, is_input_object_type, is_list_type, is_non_null_type
from graphql.utilities import coerce_input_literal, coerce_input_value, validate_input_literal, validate_input_value, value_to_literal
from graphql.validation import ValuesOfCorrectTypeRule

stubs.const_inspect(scalars, definition, viv)

E = GraphQLEnumType("E", {"A": 10, "B": 20})
In = GraphQLInputObjectType("In", lambda: {
    "a": GraphQLInputField(GraphQLInt, default_value=7),
    "b": GraphQLInputField(GraphQLNonNull(GraphQLString)),
    "n": GraphQLInputField(In),
    "l": GraphQLInputField(GraphQLList(GraphQLNonNull(GraphQLInt))),
    "e": GraphQLInputField(E, default_value=10),
})
One = GraphQLInputObjectType("One", {"x": GraphQLInputField(GraphQLInt), "y": GraphQLInputField(GraphQLString)}, is_one_of=True)
TYPES = [
    GraphQLInt, GraphQLNonNull(GraphQLInt), GraphQLFloat, GraphQLString, GraphQLBoolean, GraphQLID, E,
    GraphQLList(GraphQLInt), GraphQLNonNull(GraphQLList(GraphQLNonNull(GraphQLInt))), GraphQLList(GraphQLList(GraphQLInt)),
    In, GraphQLNonNull(In), One, GraphQLList(GraphQLNonNull(One)),
]
TYPE_NAMES = [str(t) for t in TYPES]
MAXI, MINI = 2**31 - 1, -(2**31)


def conforms(t, r) -> bool:
    """The coerced result is a value of the type."""
    if is_non_null_type(t):
        return r is not None and conforms(t.of_type, r)
    if r is None:
        return True
    if is_list_type(t):
        return isinstance(r, list) and all(conforms(t.of_type, x) for x in r)
    if is_input_object_type(t):
        if not isinstance(r, dict):
            return False
        for k in r:
            if k not in t.fields:
                return False
        for name, f in t.fields.items():
            if name in r:
                if not conforms(f.type, r[name]):
                    return False
            elif is_non_null_type(f.type) and f.default_value is Undefined:
                return False
        if t.is_one_of:
            return len(r) == 1 and list(r.values())[0] is not None
        # defaults applied
        if t is In and ("a" not in r or "e" not in r):
            return False
        return True
    if t is GraphQLInt:
        return type(r) is int and MINI <= r <= MAXI
    if t is GraphQLFloat:
        return type(r) in (int, float) and math.isfinite(r)
    if t is GraphQLString or t is GraphQLID:
        return isinstance(r, str)
    if t is GraphQLBoolean:
        return type(r) is bool
    if is_enum_type(t):
        return r in (10, 20)
    return False


def leaf(kind: int, iv, fv, sv, bv):
    return [None, Undefined, bv, iv, fv, sv][kind]


def build_value(shape: int, l1, l2):
    """Value shapes: bare leaf, lists, nested list, dicts for In / One incl. unknown key."""
    return [
        l1, [], [l1], [l1, l2], [[l1], l2],
        {"b": l1}, {"b": l1, "a": l2}, {"b": "s", "n": {"b": l1}, "l": l2}, {"b": "s", "zz": l1}, {"b": "s", "e": l1, "l": [l2]},
        {"x": l1}, {"x": l1, "y": l2}, {}, {"y": l1},
    ][shape]


N_SHAPES = 14


def errors_of_value(v, t) -> int:
    errs = []
    validate_input_value(v, t, lambda e, p: errs.append(e), True)
    return len(errs)


def value_agreement(k1: int, k2: int, iv: int, fv: float, sv: str, bv: bool, iv2: int, *, t: int, shape: int) -> bool:
    """coerce_input_value(v, T) is Undefined  <=>  validate_input_value reports an error;
    a result conforms to T; value -> literal -> coerce gives the same result."""
    k1 = forked(k1, 0, 6)
    k2 = forked(k2, 0, 6)
    assume(len(sv) <= 1)
    ty = TYPES[t]
    v = build_value(shape, leaf(k1, iv, fv, sv, bv), leaf(k2, iv2, fv, "A", bv))
    try:
        r = coerce_input_value(v, ty)
        n = errors_of_value(v, ty)
    except Exception:
        return verdict(False)
    if (r is Undefined) != (n > 0):
        return verdict(False)
    if r is Undefined:
        return verdict(True)
    if not conforms(ty, r):
        return verdict(False)
    return verdict(True)


def literal_roundtrip(k1: int, k2: int, iv: int, fv: float, sv: str, bv: bool, iv2: int, *, t: int, shape: int) -> bool:
    """An accepted external value converts to a literal whose coercion gives the same result."""
    k1 = forked(k1, 0, 6)
    k2 = forked(k2, 0, 6)
    assume(len(sv) <= 1)
    assume(-(10**6) <= iv <= 10**6 or iv in (MAXI, MINI, MAXI + 1, MINI - 1))
    ty = TYPES[t]
    v = build_value(shape, leaf(k1, iv, fv, sv, bv), leaf(k2, iv2, fv, "A", bv))
    try:
        r = coerce_input_value(v, ty)
        if r is Undefined:
            assume(False)
        lit = value_to_literal(v, ty)
        if lit is None:
            # Undefined members have no literal form; everything else must
            return verdict(v is Undefined or _has_undefined(v))
        back = coerce_input_literal(lit, ty)
    except Exception:
        return verdict(False)
    return verdict(back == r or (back != back and r != r))


def _has_undefined(v) -> bool:
    if v is Undefined:
        return True
    if isinstance(v, list):
        return any(_has_undefined(x) for x in v)
    if isinstance(v, dict):
        return any(_has_undefined(x) for x in v.values())
    return False


# ---- literals -----------------------------------------------------------------------------------
def digits_ok(d: str) -> bool:
    if len(d) == 0:
        return False
    for c in d:
        if not ("0" <= c <= "9"):
            return False
    return len(d) == 1 or d[0] != "0"


def lit_leaf(kind: int, d: str, sv: str, neg: bool):
    """Leaf literal: 0 null 1 true 2 Int 3 Float 4 String 5 enum A 6 enum Z 7 $v 8 $missing 9 $nul 10 big Int"""
    if kind == 0:
        return NullValueNode()
    if kind == 1:
        return BooleanValueNode(value=True)
    if kind == 2:
        return IntValueNode(value=("-" if neg else "") + d)
    if kind == 3:
        return FloatValueNode(value=("-" if neg else "") + d + ".5")
    if kind == 4:
        return StringValueNode(value=sv)
    if kind == 5:
        return EnumValueNode(value="A")
    if kind == 6:
        return EnumValueNode(value="Z")
    if kind == 7:
        return VariableNode(name=NameNode(value="v"))
    if kind == 8:
        return VariableNode(name=NameNode(value="missing"))
    if kind == 9:
        return VariableNode(name=NameNode(value="nul"))
    return IntValueNode(value=("-" if neg else "") + "214748364" + d[-1])


N_LEAF = 11


def obj(**fields):
    return ObjectValueNode(fields=tuple(ObjectFieldNode(name=NameNode(value=k), value=v) for k, v in fields.items()))


def build_literal(shape: int, l1, l2):
    s = StringValueNode(value="s")
    return [
        l1, ListValueNode(values=()), ListValueNode(values=(l1,)), ListValueNode(values=(l1, l2)),
        ListValueNode(values=(ListValueNode(values=(l1,)), l2)),
        obj(b=l1), obj(a=l2, b=l1), obj(b=s, n=obj(b=l1), l=l2), obj(b=s, zz=l1), obj(b=s, e=l1, l=ListValueNode(values=(l2,))),
        obj(x=l1), obj(y=l2, x=l1), obj(), obj(y=l1),
    ][shape]


def literal_agreement(k1: int, k2: int, d: str, sv: str, neg: bool, var_kind: int, frag_kind: int, *, t: int, shape: int, dlen: int) -> bool:
    """coerce_input_literal(node, T, vars) is Undefined <=> validate_input_literal reports."""
    k1 = forked(k1, 0, N_LEAF)
    k2 = forked(k2, 0, N_LEAF)
    # a bare absent variable is "no value" (Undefined), which argument coercion handles; it is
    # neither a coercion failure nor a validation error
    assume(not (shape == 0 and k1 == 8 and True))
    assume(len(d) == dlen and len(sv) <= 1)
    d = fixlen(d, dlen)
    assume(digits_ok(d))
    ty = TYPES[t]
    node = build_literal(shape, lit_leaf(k1, d, sv, neg), lit_leaf(k2, d, "A", neg))
    var_kind = forked(var_kind, 0, 3)
    vv = [1, "x", True][var_kind]
    sig = None
    sources = {"v": VariableValueSource(sig, vv), "nul": VariableValueSource(sig, None), "missing": VariableValueSource(sig)}
    variables = VariableValues(sources, {"v": vv, "nul": None})
    # experimental fragment variables: the fragment may declare $v itself -- with a value from
    # the spread, or without one (then $v is absent inside the fragment even though the
    # operation has a variable of the same name) -- or declare the otherwise missing variable
    frag_kind = forked(frag_kind, 0, 4)
    fvars = None
    if frag_kind == 1:
        fvars = FragmentVariableValues({"v": FragmentVariableValueSource(sig, 2)}, {"v": 2})
    elif frag_kind == 2:
        fvars = FragmentVariableValues({"v": FragmentVariableValueSource(sig)}, {})
    elif frag_kind == 3:
        fvars = FragmentVariableValues({"missing": FragmentVariableValueSource(sig, "m")}, {"missing": "m"})
    assume(not (shape == 0 and k1 == 7 and frag_kind == 2))  # bare absent variable: "no value"
    try:
        r = coerce_input_literal(node, ty, variables, fvars)
        errs = []
        validate_input_literal(node, ty, lambda e, p: errs.append(e), variables, fvars, True)
    except Exception:
        return verdict(False)
    uses_var = k1 >= 7 and k1 <= 9 or (k2 >= 7 and k2 <= 9 and shape in (3, 4, 6, 7, 9, 11))
    if r is Undefined:
        return verdict(len(errs) > 0)
    if errs:
        return verdict(False)
    # variables are trusted to have been validated against their declared type: conformance is
    # only claimed for constants
    return verdict(uses_var or conforms(ty, r))


def _arg_schema():
    fields = {}
    for i, ty in enumerate(TYPES):
        fields["f" + str(i)] = GraphQLField(GraphQLString, {"x": GraphQLArgument(ty)})
    return GraphQLSchema(GraphQLObjectType("Query", fields), types=[In, One, E])


ARG_SCHEMA = _arg_schema()


def rule_agreement(k1: int, k2: int, d: str, sv: str, neg: bool, *, t: int, shape: int, dlen: int) -> bool:
    """ValuesOfCorrectTypeRule accepts a constant argument exactly when its coercion succeeds."""
    k1 = forked(k1, 0, 7)
    k2 = forked(k2, 0, 7)
    assume(len(d) == dlen and len(sv) <= 1)
    d = fixlen(d, dlen)
    assume(digits_ok(d))
    for c in sv:
        assume(not ("\ud800" <= c <= "\udfff"))
    ty = TYPES[t]
    node = build_literal(shape, lit_leaf(k1, d, sv, neg), lit_leaf(k2, d, "A", neg))
    try:
        r = coerce_input_literal(node, ty)
        text = "{ f" + str(t) + "(x: " + print_ast(node) + ") }"
        errs = validate(ARG_SCHEMA, parse(text), [ValuesOfCorrectTypeRule])
    except Exception:
        return verdict(False)
    return verdict((r is Undefined) == (len(errs) > 0))


def _float_text(form: int, m: int, e: int, neg: bool, eneg: bool):
    sign = "-" if neg else ""
    if form == 0:
        return FloatValueNode(value=sign + str(m) + "e" + ("-" if eneg else "") + str(e))
    if form == 1:
        return FloatValueNode(value=sign + str(m) + "." + str(m) + "E" + ("-" if eneg else "+") + str(e))
    return IntValueNode(value=sign + str(m) + "0" * e)


def _float_literal(form, m, e, neg, eneg, t) -> bool:
    ty = TYPES[t]
    node = _float_text(form, m, e, neg, eneg)
    try:
        r = coerce_input_literal(node, ty)
        errs = []
        validate_input_literal(node, ty, lambda err, p: errs.append(err), None, None, True)
        text = "{ f" + str(t) + "(x: " + print_ast(node) + ") }"
        rule_errs = validate(ARG_SCHEMA, parse(text), [ValuesOfCorrectTypeRule])
    except Exception:
        return False
    if (r is Undefined) != (len(errs) > 0) or (r is Undefined) != (len(rule_errs) > 0):
        return False
    return r is Undefined or conforms(ty, r)


def float_literal_domain(mk: int, b: int, c: int, neg: bool, eneg: bool, *, t: int, form: int, a: int) -> bool:
    """Numeric literals with large exponents / many digits: m e[+-]NNN, m.m E[+-]NNN, and Int
    literals m 0...0 with up to 399 zeros.  Coercion, input validation and the literal rule agree,
    and an accepted constant is a value of the type -- in particular a *finite* Float."""
    from vf import concrete

    m = [1, 5, 9][forked(mk, 0, 3)]
    e = 100 * a + 10 * forked(b, 0, 10) + forked(c, 0, 10)
    return verdict(concrete(_float_literal, form, m, e, True if neg else False, True if eneg else False, t))


VAR_SCHEMA = GraphQLSchema(GraphQLObjectType("Query", {"f": GraphQLField(GraphQLString)}), types=[In, One, E])


def variables_total(k1: int, k2: int, iv: int, fv: float, sv: str, bv: bool, present: bool, *, t: int, shape: int, default: int) -> bool:
    """get_variable_values returns errors, or a value for every provided-or-defaulted variable
    (never silently drops a provided value)."""
    k1 = forked(k1, 0, 6)
    k2 = forked(k2, 0, 6)
    assume(len(sv) <= 1)
    ty = TYPES[t]
    dtext = ["", " = null", " = 1", ' = {b: "d"}', " = [1]"][default]
    doc = parse("query ($q: " + TYPE_NAMES[t] + dtext + ") { f }")
    var_defs = doc.definitions[0].variable_definitions
    v = build_value(shape, leaf(k1, iv, fv, sv, bv), leaf(k2, iv, fv, "A", bv))
    inputs = {"q": v} if present else {}
    try:
        res = get_variable_values(VAR_SCHEMA, var_defs, inputs, hide_suggestions=True)
    except Exception:
        return verdict(False)
    if isinstance(res, list):
        return verdict(len(res) > 0)
    provided = present and v is not Undefined
    if provided or default != 0:
        if "q" not in res.coerced:
            return verdict(False)
        return verdict(conforms(ty, res.coerced["q"]))
    return verdict(True)


# which shapes make sense for which type (others are still explored in thorough: they must be rejected consistently)
def shapes_for(t: int, thorough: bool):
    if thorough:
        return list(range(N_SHAPES))
    if t <= 6:
        return [0]
    if t in (7, 8, 9):
        return [3, 4]
    if t in (10, 11):
        return [6, 7, 8]
    return [11, 13]


QUICK_TYPES = [0, 1, 2, 5, 6, 8, 9, 10, 12, 13]


BOUNDS = {
    "quick": [
        "quick explores 10 of the 14 types with 1-3 shapes each under a 45 s budget per cell (bug hunting: most cells do not exhaust); thorough explores everything with 900 s per cell",
        "14 input types (Int, Int!, Float, String, Boolean, ID, enum, [Int], [Int!]!, [[Int]], recursive input object with defaults, its non-null, OneOf, [OneOf!])",
        "values: 14 shapes (leaf, lists, nested list, dicts with missing/unknown/nested keys) with two leaves each of kind None/Undefined/bool/int (unbounded)/float/str<=1; per type the relevant shapes (all 14 in thorough)",
        "literals: same shapes with leaves null/true/Int(1..2 symbolic digits, sign)/Float/String<=1/enum/unknown enum/$v/$missing/$null/Int near 2^31; variable $v bound to 1, 'x' or true",
        "ValuesOfCorrectTypeRule vs constant coercion on the same literals (constants only)",
        "get_variable_values: one variable of each of the 14 types, 5 default forms, provided/absent",
        "E2 (harness.C16_numeric): numeric leaves for all doubles / 72-bit ints",
        "numeric literal domain: Float literals m e[+-]NNN and m.m E[+-]NNN (m in 1,5,9; NNN 0..399), Int literals of 1..400 digits, against Float and Int",
    ],
    "thorough": ["as quick with all 14 shapes for every type and Int digits up to 3"],
}
ASSUMPTIONS = [
    "pyutils.inspect replaced by a constant; hide_suggestions=True",
    "custom scalars and out_type/out_name hooks are outside the claim; string values longer than 1 code point are opaque to coercion",
    "for variable-bearing literals only agreement is claimed (the value of a variable is trusted to have been coerced against its own declaration)",
]


def obligations(tier):
    th = tier == "thorough"
    B = 900 if th else 45
    obs = []
    for t in (range(len(TYPES)) if th else QUICK_TYPES):
        for shape in shapes_for(t, th):
            hard = not th
            obs.append(dict(fn="value_agreement", cell=dict(t=t, shape=shape), budget_s=B, expect_confirm=not hard))
            obs.append(dict(fn="literal_roundtrip", cell=dict(t=t, shape=shape), budget_s=B, expect_confirm=not hard))
            for dlen in ((1, 2, 3) if th else (1,)):
                obs.append(dict(fn="literal_agreement", cell=dict(t=t, shape=shape, dlen=dlen), budget_s=B, expect_confirm=not hard))
                obs.append(dict(fn="rule_agreement", cell=dict(t=t, shape=shape, dlen=dlen), budget_s=B, expect_confirm=not hard))
        for default in ((0, 1, 2, 3, 4) if th else (0,)):
            obs.append(dict(fn="variables_total", cell=dict(t=t, shape=shapes_for(t, False)[-1], default=default), budget_s=B, expect_confirm=not hard))
    for t in (0, 2):
        for form in (0, 1, 2):
            for a in (0, 1, 2, 3):
                obs.append(dict(fn="float_literal_domain", cell=dict(t=t, form=form, a=a), budget_s=600 if th else 60, expect_confirm=th))
    return obs


def corpus():
    for t in (0, 2):
        for form in (0, 1, 2):
            yield "float_literal_domain", dict(t=t, form=form, a=0), dict(mk=0, b=0, c=3, neg=False, eneg=False)
            yield "float_literal_domain", dict(t=t, form=form, a=3), dict(mk=2, b=0, c=8, neg=True, eneg=False)
            yield "float_literal_domain", dict(t=t, form=form, a=3), dict(mk=1, b=9, c=9, neg=False, eneg=True)
    base = dict(k1=3, k2=3, iv=1, fv=1.5, sv="A", bv=True)
    for t in range(len(TYPES)):
        for shape in range(N_SHAPES):
            yield "value_agreement", dict(t=t, shape=shape), dict(base, iv2=2)
            yield "literal_agreement", dict(t=t, shape=shape, dlen=1), dict(k1=2, k2=4, d="5", sv="A", neg=False, var_kind=0, frag_kind=0)
            yield "rule_agreement", dict(t=t, shape=shape, dlen=1), dict(k1=2, k2=4, d="5", sv="A", neg=False)
        yield "variables_total", dict(t=t, shape=0, default=0), dict(k1=3, k2=3, iv=1, fv=1.5, sv="A", bv=True, present=True)
    yield "literal_roundtrip", dict(t=10, shape=5), dict(base, k1=5, iv2=2)
    yield "literal_roundtrip", dict(t=7, shape=3), dict(base, iv2=2)
    yield "literal_roundtrip", dict(t=0, shape=0), dict(base, k1=4, fv=7.0, iv2=2)
