"""C14: OverlappingFieldsCanBeMergedRule accepts exactly what FieldsInSetCanMerge accepts."""
from __future__ import annotations

from vf import assume, concrete, fixlen, forked, verdict

from graphql import build_schema, parse, validate
from graphql.language.ast import (
    FieldNode, FragmentDefinitionNode, FragmentSpreadNode, InlineFragmentNode, ListValueNode, ObjectValueNode,
    OperationDefinitionNode, SelectionSetNode,
)
from graphql.type import (
    GraphQLList, GraphQLNonNull, get_named_type, is_interface_type, is_leaf_type, is_list_type, is_non_null_type, is_object_type,
)
from graphql.language import print_ast
from graphql.validation import OverlappingFieldsCanBeMergedRule
from graphql.validation.rules.overlapping_fields_can_be_merged import OrderedPairSet, PairSet, do_types_conflict

SCHEMA = build_schema("""
input In { p: Int q: Int }
interface I { a: Int b: Int! c: [Int] d: [Int!] s: String t: T1 i: I g(x: Int, y: In, z: [In]): Int }
type T1 implements I { a: Int b: Int! c: [Int] d: [Int!] s: String t: T1 i: I g(x: Int, y: In, z: [In]): Int x: Int n: Int l: [Int] o: T1 }
type T2 implements I { a: Int b: Int! c: [Int] d: [Int!] s: String t: T1 i: I g(x: Int, y: In, z: [In]): Int x: String n: Int! l: [Int!] o: T2 }
union U = T1 | T2
type Query { i: I u: U t1: T1 }
""")


# ---- the specification's algorithm ------------------------------------------------------------------
def spec_has_conflict(doc, schema=SCHEMA) -> bool:
    fragments = {d.name.value: d for d in doc.definitions if isinstance(d, FragmentDefinitionNode)}

    def collect(sel_set, parent, out, visited):
        """(response name, field node, parent type, field def) with fragments expanded"""
        for sel in sel_set.selections:
            if isinstance(sel, FieldNode):
                fdef = parent.fields.get(sel.name.value) if (is_object_type(parent) or is_interface_type(parent)) else None
                out.append(((sel.alias or sel.name).value, sel, parent, fdef))
            elif isinstance(sel, InlineFragmentNode):
                p = schema.get_type(sel.type_condition.name.value) if sel.type_condition else parent
                collect(sel.selection_set, p, out, visited)
            elif isinstance(sel, FragmentSpreadNode):
                name = sel.name.value
                if name in visited or name not in fragments:
                    continue
                visited.add(name)
                frag = fragments[name]
                collect(frag.selection_set, schema.get_type(frag.type_condition.name.value), out, visited)
        return out

    def canon(v):
        """argument values are compared as values: object fields in any order are identical"""
        if isinstance(v, ObjectValueNode):
            return ("obj", tuple(sorted((f.name.value, canon(f.value)) for f in v.fields)))
        if isinstance(v, ListValueNode):
            return ("list", tuple(canon(x) for x in v.values))
        return ("leaf", v.kind, print_ast(v))

    def args_text(node):
        return sorted((a.name.value, canon(a.value)) for a in node.arguments or ())

    def same_shape(ta, tb) -> bool:
        while True:
            if is_non_null_type(ta) or is_non_null_type(tb):
                if not (is_non_null_type(ta) and is_non_null_type(tb)):
                    return False
                ta, tb = ta.of_type, tb.of_type
            if is_list_type(ta) or is_list_type(tb):
                if not (is_list_type(ta) and is_list_type(tb)):
                    return False
                ta, tb = ta.of_type, tb.of_type
                continue
            break
        if is_leaf_type(ta) or is_leaf_type(tb):
            return ta is tb
        return True  # composite: sub-selections are compared by the caller

    seen_pairs = set()

    def fields_in_set_can_merge(items, must_be_same_response_shape_only=False) -> bool:
        """items: collected fields of one (merged) selection set."""
        by_name = {}
        for it in items:
            by_name.setdefault(it[0], []).append(it)
        for name, group in by_name.items():
            for x in range(len(group)):
                for y in range(x + 1, len(group)):
                    _n, fa, pa, da = group[x]
                    _n, fb, pb, db = group[y]
                    if fa is fb:
                        continue
                    key = (id(fa), id(fb), must_be_same_response_shape_only)
                    if key in seen_pairs:
                        continue
                    seen_pairs.add(key)
                    same_parent = pa is pb or not is_object_type(pa) or not is_object_type(pb)
                    strict = same_parent and not must_be_same_response_shape_only
                    if da is not None and db is not None and not same_shape(da.type, db.type):
                        return False
                    if strict:
                        if fa.name.value != fb.name.value:
                            return False
                        if args_text(fa) != args_text(fb):
                            return False
                    sa, sb = fa.selection_set, fb.selection_set
                    if sa or sb:
                        merged = []
                        if sa and da is not None:
                            collect(sa, get_named_type(da.type), merged, set())
                        if sb and db is not None:
                            collect(sb, get_named_type(db.type), merged, set())
                        if not fields_in_set_can_merge(merged, not strict):
                            return False
        return True

    def visit_sets(sel_set, parent):
        if not fields_in_set_can_merge(collect(sel_set, parent, [], set())):
            return False
        for sel in sel_set.selections:
            if isinstance(sel, FieldNode) and sel.selection_set:
                fdef = parent.fields.get(sel.name.value) if hasattr(parent, "fields") else None
                if fdef is not None and not visit_sets(sel.selection_set, get_named_type(fdef.type)):
                    return False
            elif isinstance(sel, InlineFragmentNode):
                p = schema.get_type(sel.type_condition.name.value) if sel.type_condition else parent
                if not visit_sets(sel.selection_set, p):
                    return False
        return True

    for d in doc.definitions:
        if isinstance(d, OperationDefinitionNode):
            if not visit_sets(d.selection_set, schema.query_type):
                return True
        elif isinstance(d, FragmentDefinitionNode):
            if not visit_sets(d.selection_set, schema.get_type(d.type_condition.name.value)):
                return True
    return False


def real_has_conflict(doc) -> bool:
    return len(validate(SCHEMA, doc, [OverlappingFieldsCanBeMergedRule])) > 0


# ---- documents from templates with symbolic holes ------------------------------------------------------
FIELDS = [
    "r: a", "r: s", "r: b", "r: c", "r: d", "r: x", "r: n", "r: l",
    "r: g(x: 1)", "r: g(x: 2)", "r: g(x: $v)", "r: g(y: {p: 1, q: 2})", "r: g(y: {q: 2, p: 1})", "r: g(z: [{p: 1, q: 2}])", "r: g(z: [{q: 2, p: 1}])",
    "r: t { k: a }", "r: t { k: s }", "r: o { k: x }", "r: o { k: a }", "r: i { k: a }", "a", "r: g",
]
QUICK_FIELDS = [0, 1, 2, 5, 6, 9, 11, 12, 13, 14, 15, 16, 17]
ORDERS3 = [(0, 1, 2), (0, 2, 1), (1, 0, 2), (1, 2, 0), (2, 0, 1), (2, 1, 0)]


def structure(k: int, f1: str, f2: str, f3: str, order) -> str:
    """How the three field texts are placed relative to each other."""
    def perm(parts):
        return " ".join(parts[i] for i in order)

    if k == 0:  # same selection set
        return "query ($v: Int) { t1 { " + perm([f1, f2, f3]) + " } }"
    if k == 1:  # exclusive parents T1 / T2, third under T1 again
        return "query ($v: Int) { i { " + perm(["... on T1 { " + f1 + " }", "... on T2 { " + f2 + " }", "... on T1 { " + f3 + " }"]) + " } }"
    if k == 2:  # one through a fragment spread
        return "query ($v: Int) { i { " + perm(["... on T1 { " + f1 + " }", "...F", "... on T2 { " + f3 + " }"]) + " } } fragment F on T1 { " + f2 + " }"
    if k == 3:  # nested object field whose sub-selection goes through the same fragment under exclusive and non-exclusive parents
        return ("query ($v: Int) { i { " + perm(["... on T1 { w: t { " + f1 + " } }", "... on T2 { w: t { ...F } }", "... on T1 { w: t { ...F } }"]) + " } } "
                "fragment F on T1 { " + f2 + " " + f3 + " }")
    if k == 4:  # mutually recursive fragments
        return "query ($v: Int) { t1 { ...A " + f1 + " } } fragment A on T1 { " + f2 + " o { ...B } } fragment B on T1 { " + f3 + " o { ...A } ...A }"
    if k == 5:  # fragment cycle of length 3, two of them first compared under exclusive parents
        return ("query ($v: Int) { i { " + perm(["... on T1 { ...A }", "... on T2 { ...B }", "...A ...B ...C"]) + " } } "
                "fragment A on I { " + f1 + " ...B } fragment B on I { " + f2 + " ...C } fragment C on I { " + f3 + " ...A }")
    if k == 6:  # union parent, typename-free
        return "query ($v: Int) { u { " + perm(["... on T1 { " + f1 + " }", "... on T2 { " + f2 + " }", "... on I { " + f3 + " }"]) + " } }"
    # k == 7: same fragment spread twice at different depths
    return "query ($v: Int) { t1 { " + perm(["...F", "o { ...F " + f1 + " }", f2]) + " } } fragment F on T1 { " + f3 + " }"


N_STRUCT = 8


def usable(ftext: str, on_type: str) -> bool:
    """field exists on the type it is placed under (the rule is only specified for such fields)"""
    name = ftext.split(":")[-1].strip().split("(")[0].split(" ")[0] if ":" in ftext else ftext.split("(")[0].split(" ")[0]
    return name in SCHEMA.get_type(on_type).fields


def merge_agreement(i1: int, i2: int, i3: int, *, k: int, quick: bool, o: int) -> bool:
    """rule reports a conflict  <=>  the specification's algorithm finds one (and it terminates)."""
    pool = QUICK_FIELDS if quick else list(range(len(FIELDS)))
    f1 = FIELDS[pool[forked(i1, 0, len(pool))]]
    f2 = FIELDS[pool[forked(i2, 0, len(pool))]]
    f3 = FIELDS[pool[forked(i3, 0, len(pool))]]
    order = ORDERS3[o]
    text = structure(k, f1, f2, f3, order)
    r = concrete(_agree, text)  # the document text is concrete once the holes are forked
    assume(r is not None)
    return verdict(r)


def _agree(text: str):
    doc = parse(text)
    # keep to documents whose fields exist (FieldsOnCorrectType is a different rule)
    from graphql.validation import FieldsOnCorrectTypeRule

    if len(validate(SCHEMA, doc, [FieldsOnCorrectTypeRule])) != 0:
        return None
    try:
        real = real_has_conflict(doc)
    except Exception:
        return False  # includes RecursionError on cyclic spreads
    return real == spec_has_conflict(doc)


# ---- unit obligations -----------------------------------------------------------------------------
KEYS = ["a", "b", "c"]


def pair_set_model(a1: int, b1: int, e1: bool, a2: int, b2: int, e2: bool, qa: int, qb: int, qe: bool) -> bool:
    """PairSet after two adds vs an abstract map from unordered pairs to flags: a non-exclusive
    entry subsumes an exclusive query, not vice versa; the last add for a pair wins."""
    a1, b1, a2, b2, qa, qb = (KEYS[forked(x, 0, 3)] for x in (a1, b1, a2, b2, qa, qb))
    ps = PairSet()
    model = {}
    ps.add(a1, b1, e1)
    model[frozenset((a1, b1)) if a1 != b1 else frozenset((a1,))] = e1
    ps.add(a2, b2, e2)
    model[frozenset((a2, b2)) if a2 != b2 else frozenset((a2,))] = e2
    key = frozenset((qa, qb)) if qa != qb else frozenset((qa,))
    if key not in model:
        want = False
    else:
        stored = model[key]
        want = True if qe else (stored is False)
    return verdict(ps.has(qa, qb, qe) == want)


def ordered_pair_set_model(i1: int, b1: int, w1: bool, i2: int, b2: int, w2: bool, qi: int, qb: int, qw: bool) -> bool:
    """OrderedPairSet keyed on object identity of the first element."""
    objs = [{}, {}, {}]
    b1, b2, qb = (KEYS[forked(x, 0, 2)] for x in (b1, b2, qb))
    i1, i2, qi = forked(i1, 0, 3), forked(i2, 0, 3), forked(qi, 0, 3)
    ops = OrderedPairSet()
    model = {}
    ops.add(objs[i1], b1, w1)
    model[(i1, b1)] = w1
    ops.add(objs[i2], b2, w2)
    model[(i2, b2)] = w2
    if (qi, qb) not in model:
        want = False
    else:
        want = True if qw else (model[(qi, qb)] is False)
    return verdict(ops.has(objs[qi], qb, qw) == want)


LEAVES = ["Int", "String", "T1", "I"]


def wrap(base, w: int):
    """wrapper stacks: 0 T, 1 T!, 2 [T], 3 [T]!, 4 [T!], 5 [T!]!, 6 [[T]], 7 [[T]!]"""
    if w == 0:
        return base
    if w == 1:
        return GraphQLNonNull(base)
    if w == 2:
        return GraphQLList(base)
    if w == 3:
        return GraphQLNonNull(GraphQLList(base))
    if w == 4:
        return GraphQLList(GraphQLNonNull(base))
    if w == 5:
        return GraphQLNonNull(GraphQLList(GraphQLNonNull(base)))
    if w == 6:
        return GraphQLList(GraphQLList(base))
    return GraphQLList(GraphQLNonNull(GraphQLList(base)))


def types_conflict_model(l1: int, w1: int, l2: int, w2: int) -> bool:
    """do_types_conflict is the negation of SameResponseShape's wrapper/leaf comparison."""
    t1 = wrap(SCHEMA.get_type(LEAVES[forked(l1, 0, 4)]), forked(w1, 0, 8))
    t2 = wrap(SCHEMA.get_type(LEAVES[forked(l2, 0, 4)]), forked(w2, 0, 8))
    a, b = t1, t2
    same = True
    while True:
        if is_non_null_type(a) or is_non_null_type(b):
            if not (is_non_null_type(a) and is_non_null_type(b)):
                same = False
                break
            a, b = a.of_type, b.of_type
        if is_list_type(a) or is_list_type(b):
            if not (is_list_type(a) and is_list_type(b)):
                same = False
                break
            a, b = a.of_type, b.of_type
            continue
        break
    if same and (is_leaf_type(a) or is_leaf_type(b)):
        same = a is b
    return verdict(do_types_conflict(t1, t2) == (not same))


BOUNDS = {
    "quick": [
        "8 document structures (same set; exclusive/non-exclusive parents; through a spread; same fragment under exclusive then non-exclusive parents; mutually recursive fragments; 3-cycle; union parent; same fragment at two depths) x three symbolic field holes over 13 field texts (22 in thorough) x all 6 placement orders",
        "PairSet / OrderedPairSet: two adds + one query with keys from a 3-element set and arbitrary flags vs an abstract map",
        "do_types_conflict vs SameResponseShape on 4 named types x 8 wrapper stacks, both sides",
    ],
    "thorough": ["as quick with all 22 field texts"],
}
ASSUMPTIONS = [
    "documents are restricted to fields that exist on their parent type (other documents are the subject of FieldsOnCorrectType)",
    "@stream comparison and fragment arguments are outside the oracle",
    "the reference algorithm memoises compared field pairs (coinductively 'can merge') to terminate on cyclic spreads",
]


def obligations(tier):
    th = tier == "thorough"
    obs = []
    for k in range(N_STRUCT):
        for o in range(6):
            obs.append(dict(fn="merge_agreement", cell=dict(k=k, quick=not th, o=o), budget_s=1800 if th else 120))
    obs.append(dict(fn="pair_set_model", cell={}, budget_s=900 if th else 120))
    obs.append(dict(fn="ordered_pair_set_model", cell={}, budget_s=900 if th else 120))
    obs.append(dict(fn="types_conflict_model", cell={}, budget_s=900 if th else 120))
    return obs


def corpus():
    # pinned by tests/validation/test_overlapping_fields_can_be_merged.py style cases
    for k in range(N_STRUCT):
        yield "merge_agreement", dict(k=k, quick=False, o=0), dict(i1=0, i2=0, i3=0)
        yield "merge_agreement", dict(k=k, quick=False, o=3), dict(i1=0, i2=1, i3=2)
        yield "merge_agreement", dict(k=k, quick=False, o=5), dict(i1=11, i2=12, i3=8)
        yield "merge_agreement", dict(k=k, quick=False, o=1), dict(i1=15, i2=16, i3=5)
    yield "pair_set_model", {}, dict(a1=0, b1=1, e1=True, a2=1, b2=0, e2=False, qa=0, qb=1, qe=False)
    yield "ordered_pair_set_model", {}, dict(i1=0, b1=0, w1=True, i2=1, b2=0, w2=False, qi=0, qb=0, qw=False)
    yield "types_conflict_model", {}, dict(l1=0, w1=3, l2=0, w2=4)
