"""C17: a schema survives printing to SDL and rebuilding."""
from __future__ import annotations

from vf import assume, concrete, fixlen, forked, verdict
from vf import stubs

from graphql import (
    GraphQLArgument, GraphQLEnumType, GraphQLEnumValue, GraphQLField, GraphQLInt, GraphQLObjectType, GraphQLSchema, build_schema,
    print_schema, validate_schema,
)
from graphql.utilities import find_schema_changes

from harness.lexer_common import no_surrogates
from harness.schema_family import N_PARTS, build_family, programmatic

stubs.fast_syntax_error()


def same_schema(s1, s2) -> bool:
    if validate_schema(s2):
        return False
    p1, p2 = print_schema(s1), print_schema(s2)
    if p1 != p2:
        return False
    if find_schema_changes(s1, s2) or find_schema_changes(s2, s1):
        return False
    # same order of types, fields, arguments, enum values
    def order(s):
        out = []
        for name, t in s.type_map.items():
            if name.startswith("__"):
                continue
            out.append(name)
            for attr in ("fields", "values"):
                m = getattr(t, attr, None)
                if isinstance(m, dict):
                    for k, v in m.items():
                        out.append((name, k))
                        args = getattr(v, "args", None)
                        if isinstance(args, dict):
                            out.extend((name, k, a) for a in args)
        return out
    # descriptions and deprecation reasons, element by element (identical prints do not imply this:
    # the printer may normalise a text in a way that the re-print of the rebuilt schema repeats)
    def texts(s):
        out = [("schema", s.description)]
        for name, t in s.type_map.items():
            if name.startswith("__"):
                continue
            out.append((name, t.description))
            for attr in ("fields", "values"):
                m = getattr(t, attr, None)
                if isinstance(m, dict):
                    for k, v in m.items():
                        out.append((name, k, v.description, getattr(v, "deprecation_reason", None)))
                        args = getattr(v, "args", None)
                        if isinstance(args, dict):
                            out.extend((name, k, a, av.description, av.deprecation_reason) for a, av in args.items())
        for d in s.directives:
            out.append(("@" + d.name, d.description))
            out.extend(("@" + d.name, a, av.description, av.deprecation_reason) for a, av in d.args.items())
        return out
    if sorted(texts(s1), key=repr) != sorted(texts(s2), key=repr):  # (order is compared separately below)
        return False
    custom = lambda s: [x for x in order(s) if (x if isinstance(x, str) else x[0]) not in ("String", "Int", "Float", "Boolean", "ID")]
    return custom(s1) == custom(s2)


def description_text(d: str, *, length: int, where: int, c0: int) -> bool:
    """Any description text (all scalar values): on a type, a field, an argument, an enum value --
    printed as block or quoted string at the respective indentation -- survives print -> build."""
    from harness.C08_roundtrip import str_class

    assume(len(d) == length)
    d = fixlen(d, length)
    if length:
        assume(str_class(d[0]) == c0)
    assume(no_surrogates(d))
    try:
        color = GraphQLEnumType("Color", {"RED": GraphQLEnumValue(1, description=d if where == 3 else None)}, description=d if where == 0 else None)
        q = GraphQLObjectType("Query", {"f": GraphQLField(color, {"a": GraphQLArgument(GraphQLInt, description=d if where == 2 else None)}, description=d if where == 1 else None)})
        s1 = GraphQLSchema(q, description=d if where == 4 else None)
        text = print_schema(s1)
        s2 = build_schema(text)
        got = [s2.get_type("Color").description, s2.query_type.fields["f"].description, s2.query_type.fields["f"].args["a"].description,
               s2.get_type("Color").values["RED"].description, s2.description][where]
        # (an empty description is printed as "" and read back as the empty string)
        if got != d:
            return verdict(False)
        return verdict(print_schema(s2) == text)
    except Exception:
        return verdict(False)


def deprecation_reason_text(r: str, *, length: int, c0: int) -> bool:
    from harness.C08_roundtrip import str_class

    assume(len(r) == length)
    r = fixlen(r, length)
    if length:
        assume(str_class(r[0]) == c0)
    assume(no_surrogates(r))
    try:
        q = GraphQLObjectType("Query", {"f": GraphQLField(GraphQLInt, {"a": GraphQLArgument(GraphQLInt, deprecation_reason=r)}, deprecation_reason=r)})
        s1 = GraphQLSchema(q)
        text = print_schema(s1)
        s2 = build_schema(text)
        f = s2.query_type.fields["f"]
        return verdict(f.deprecation_reason == r and f.args["a"].deprecation_reason == r and print_schema(s2) == text)
    except Exception:
        return verdict(False)


def _family(bits) -> bool:
    s1 = build_family(bits)
    if validate_schema(s1):
        return False
    s2 = build_schema(print_schema(s1))
    return same_schema(s1, s2)


def family_roundtrip(b0: bool, b1: bool, b2: bool, b3: bool, b4: bool, b5: bool, b6: bool, b7: bool, b8: bool) -> bool:
    """All 512 combinations of 9 optional schema parts (custom roots, interface hierarchy, union,
    OneOf / recursive inputs with defaults, repeatable directive, specifiedBy, deprecations, a
    non-object type named like a default root, the query root carrying its default name)."""
    bits = [1 if b else 0 for b in (b0, b1, b2, b3, b4, b5, b6, b7, b8)]
    try:
        return verdict(concrete(_family, bits))
    except Exception:
        return verdict(False)


ADVERSARIAL = ["", "x", " lead", "trail ", 'q"uote', "back\\slash", "line\nbreak", "a b", "a b", "\x1cfs", "a\x85b", "\x0bvt", '"""', "tab\tx", "\n x", "x\n", "é漢😀", "\x00nul", "  \n  indented\n    more", "a\rb",
               "one\n \ntwo", "a\n\t\nb", "first\n   \n  second\n\n third"]


def _programmatic(di, ri, dk) -> bool:
    s1 = programmatic(ADVERSARIAL[di], None if ri == 0 else ("" if ri == 6 else ADVERSARIAL[ri]), dk)  # ri 6: deprecated with an empty reason
    if validate_schema(s1):
        return False
    s2 = build_schema(print_schema(s1))
    return same_schema(s1, s2)


def programmatic_roundtrip(di: int, ri: int, dk: int) -> bool:
    """A programmatically assembled schema with adversarial description / deprecation strings
    and defaults given as Python values (incl. explicit None inside input objects and the Int
    minimum)."""
    di = forked(di, 0, len(ADVERSARIAL))
    ri = forked(ri, 0, 7)
    dk = forked(dk, 0, 4)
    try:
        return verdict(concrete(_programmatic, di, ri, dk))
    except Exception:
        return verdict(False)


DEFAULT_ALPHABET = ["0", "1", "9", "-", "\n", "a", " ", '"', "\\", "\r", "é", ".", "e", "\u2028", "+"]


def _default_text(s, ty, where) -> bool:
    from graphql import GraphQLID, GraphQLInputField, GraphQLInputObjectType, GraphQLString, execute_sync, parse

    from graphql.type import GraphQLDefaultInput as D

    t = GraphQLID if ty == 0 else GraphQLString
    if where == 0:
        args = {"a": GraphQLArgument(t, default=D(s))}
    elif where == 2:
        args = {"a": GraphQLArgument(t, default_value=s)}  # the legacy (already coerced) form
    else:
        inp = GraphQLInputObjectType("In", {"x": GraphQLInputField(t, default=D(s)), "y": GraphQLInputField(GraphQLInt)})
        args = {"a": GraphQLArgument(inp, default=D({"y": 1}))}

    def effective(schema):
        schema.query_type.fields["f"].resolve = lambda _src, _info, **kw: repr(kw)
        r = execute_sync(schema, parse("{ f }"))
        return None if r.errors else r.data["f"]

    from graphql import GraphQLString as Str
    s1 = GraphQLSchema(GraphQLObjectType("Query", {"f": GraphQLField(Str, args)}))
    if validate_schema(s1):
        return False
    text = print_schema(s1)
    s2 = build_schema(text)
    if not same_schema(s1, s2):
        return False
    e1, e2 = effective(s1), effective(s2)
    return e1 is not None and e1 == e2


def default_text(k0: int, k1: int, k2: int, *, length: int, ty: int, where: int) -> bool:
    """Default values of type ID / String given as Python strings (digits, sign, line terminators,
    quotes, escapes...): the printed default reads back as the same value -- compared through the
    argument values a resolver actually receives."""
    n = len(DEFAULT_ALPHABET)
    ks = [forked(k0, 0, n), forked(k1, 0, n), forked(k2, 0, n)][:length]
    text = "".join(DEFAULT_ALPHABET[k] for k in ks)
    try:
        return verdict(concrete(_default_text, text, ty, where))
    except Exception:
        return verdict(False)


BOUNDS = {
    "quick": [
        "default value text: every string of 0..3 symbols from a 15-symbol alphabet (digits, sign, LF, CR, U+2028, quote, backslash, blank, letters) as default of an ID / String argument or input field, compared through the argument values a resolver receives",
        "description text: every string of exactly 0..2 scalar values (cells by class of the first char) in 5 positions (type, field, argument, enum value, schema); deprecation reason: every string of 0..2",
        "512 SDL schemas (9 optional parts); 23 adversarial strings (incl. interior whitespace-only lines) x 7 reasons (none, 5 texts, the empty text) x 4 default-value shapes on a programmatic schema",
    ],
    "thorough": ["description / reason text up to 3 code points"],
}
ASSUMPTIONS = [
    "lone surrogates have no representation in SDL and are excluded; schemas outside the family are outside",
    "find_schema_changes is used as the difference detector (its own soundness is C19's subject)",
]


def obligations(tier):
    th = tier == "thorough"
    B = 1200 if th else 100
    obs = []
    for n in range(0, (3 if th else 2) + 1):
        for c0 in range(5 if n else 1):
            for where in (range(5) if (th or n < 2) else (1, 3)):
                obs.append(dict(fn="description_text", cell=dict(length=n, where=where, c0=c0), budget_s=B if (th or n < 2) else 60, expect_confirm=th or n < 2))
            obs.append(dict(fn="deprecation_reason_text", cell=dict(length=n, c0=c0), budget_s=B, expect_confirm=th or n < 2))
    for length in (0, 1, 2, 3):
        for ty in (0, 1):
            for where in (0, 1, 2):
                obs.append(dict(fn="default_text", cell=dict(length=length, ty=ty, where=where), budget_s=B * 3 if length == 3 else B, expect_confirm=th or length < 3))
    obs.append(dict(fn="family_roundtrip", cell={}, budget_s=B * 2))
    obs.append(dict(fn="programmatic_roundtrip", cell={}, budget_s=B * 2))
    return obs


def corpus():
    for where in range(5):
        yield "description_text", dict(length=3, where=where, c0=4), dict(d="a\nb")
        yield "description_text", dict(length=1, where=where, c0=4), dict(d=" ")
    yield "deprecation_reason_text", dict(length=2, c0=2), dict(r='"x')
    yield "family_roundtrip", {}, dict(b0=True, b1=True, b2=True, b3=True, b4=True, b5=True, b6=True, b7=True, b8=True)
    yield "family_roundtrip", {}, dict(b0=False, b1=False, b2=False, b3=False, b4=False, b5=False, b6=False, b7=True, b8=True)
    for ty in (0, 1):
        for where in (0, 1, 2):
            yield "default_text", dict(length=3, ty=ty, where=where), dict(k0=1, k1=0, k2=5)
            yield "default_text", dict(length=2, ty=ty, where=where), dict(k0=3, k1=1, k2=0)
            yield "default_text", dict(length=3, ty=ty, where=where), dict(k0=7, k1=8, k2=4)
    for di in range(len(ADVERSARIAL)):
        yield "programmatic_roundtrip", {}, dict(di=di, ri=di % 6, dk=di % 4)
