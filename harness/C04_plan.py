"""C04 (unit): build_execution_plan partitions a grouped field set exactly as the specification's
BuildExecutionPlan does -- the step that decides which fields are delivered with which deferred
fragment(s), and therefore whether the payloads can reassemble to the reference response.

Inputs are solver-forked: the defer-usage forest (parent of each usage), the defer usage of every
field occurrence (or none), the set of parent defer usages.  Defer usages are compared by
*identity* (two unlabelled sibling `@defer`s are equal as tuples but are different usages), so all
usages of a cell deliberately carry the same label."""
from __future__ import annotations

from vf import concrete, forked, verdict

from graphql.execution.collect_fields import DeferUsage, FieldDetails
from graphql.execution.incremental.build_execution_plan import build_execution_plan
from graphql.language import FieldNode, NameNode
from graphql.pyutils import RefSet


def forests(n):
    """all parent vectors: parent[i] in {-1, 0..i-1}"""
    out = [[]]
    for i in range(n):
        out = [p + [j] for p in out for j in range(-1, i)]
    return out


FORESTS3 = forests(3)
FORESTS4 = forests(4)


def spec_filtered(usages_idx, parents):
    """the spec's filtered defer usage set of one field group, on indices"""
    if any(u is None for u in usages_idx):
        return frozenset()
    s = set(usages_idx)

    def has_ancestor_in(u):
        p = parents[u]
        while p != -1:
            if p in s:
                return True
            p = parents[p]
        return False

    return frozenset(u for u in s if not has_ancestor_in(u))


def _plan(parents, keys, parent_set) -> bool:
    """keys: list of lists of usage indices (None = not deferred); parent_set: list of indices"""
    n = len(parents)
    usages = []
    for i in range(n):
        usages.append(DeferUsage(None, usages[parents[i]] if parents[i] != -1 else None))
    original = {}
    for k, occ in enumerate(keys):
        original["k" + str(k)] = [FieldDetails(FieldNode(name=NameNode(value="f" + str(k))), None if u is None else usages[u]) for u in occ]
    snapshot = {k: list(v) for k, v in original.items()}
    pset = RefSet([usages[i] for i in parent_set])
    try:
        plan = build_execution_plan(original, pset)
    except Exception:
        return False
    # inputs untouched
    if list(original) != list(snapshot) or any(original[k] != snapshot[k] or any(a is not b for a, b in zip(original[k], snapshot[k])) for k in original):
        return False
    if [id(u) for u in pset] != [id(usages[i]) for i in parent_set]:
        return False
    # the specification's partition
    want_main = []
    want_groups = {}
    for k, occ in enumerate(keys):
        f = spec_filtered(occ, parents)
        if f == frozenset(parent_set):
            want_main.append("k" + str(k))
        else:
            want_groups.setdefault(f, []).append("k" + str(k))
    if list(plan.grouped_field_set) != want_main:
        return False
    got_groups = {}
    for dus, gfs in plan.new_grouped_field_sets.items():
        idx = frozenset(next(i for i, u in enumerate(usages) if u is d) for d in dus)
        if idx in got_groups:
            return False  # two groups keyed by the same set of usages
        got_groups[idx] = set(gfs)
        for key in gfs:
            if list(gfs[key]) != snapshot[key] or any(a is not b for a, b in zip(gfs[key], snapshot[key])):
                return False  # the same field occurrences, in the same order
    for key in plan.grouped_field_set:
        if list(plan.grouped_field_set[key]) != snapshot[key]:
            return False
    # (key order inside a deferred group is not observable in the reassembled response: compared as sets)
    return got_groups == {k: set(v) for k, v in want_groups.items()}


OCC = [(None,), (0,), (1,), (2,), (None, 0), (0, 1), (1, 0), (0, 2), (1, 2), (2, 2), (2, None), (0, 1, 2)]
PSETS = [[], [0], [1], [2], [0, 1], [1, 2]]


def plan_matches_spec(o0: int, o1: int, o2: int, *, forest: int, pset: int, nkeys: int) -> bool:
    """3 defer usages in every forest shape x every assignment of 12 occurrence patterns to 2..3
    response keys x 6 parent sets: the plan equals the specification's partition (main group,
    one new group per distinct filtered set, document order of the main group kept, the same field occurrences,
    inputs untouched)."""
    parents = FORESTS3[forest]
    occ = [OCC[forked(o0, 0, len(OCC))], OCC[forked(o1, 0, len(OCC))]]
    if nkeys == 3:
        occ.append(OCC[forked(o2, 0, len(OCC))])
    return verdict(concrete(_plan, parents, [list(o) for o in occ], PSETS[pset]))


BOUNDS = {
    "quick": ["build_execution_plan: 3 defer usages (same label, compared by identity) in all 6 forest shapes x 6 parent sets x 12 occurrence patterns (not deferred / one usage / two or three usages incl. ancestor+descendant and repeated) on 2 response keys"],
    "thorough": ["same with 3 response keys"],
}
ASSUMPTIONS = ["the reference partition is the specification's BuildExecutionPlan written over usage indices"]


def obligations(tier):
    th = tier == "thorough"
    obs = []
    for forest in range(len(FORESTS3)):
        for pset in range(len(PSETS)):
            obs.append(dict(fn="plan_matches_spec", cell=dict(forest=forest, pset=pset, nkeys=3 if th else 2), budget_s=600 if th else 40))
    return obs


def corpus():
    for forest in range(len(FORESTS3)):
        yield "plan_matches_spec", dict(forest=forest, pset=0, nkeys=3), dict(o0=0, o1=5, o2=11)
        yield "plan_matches_spec", dict(forest=forest, pset=1, nkeys=3), dict(o0=1, o1=6, o2=9)
        yield "plan_matches_spec", dict(forest=forest, pset=4, nkeys=3), dict(o0=5, o1=8, o2=4)
