"""C06 (serial execution): stopping a *mutation* early never hangs or leaks.

The abort path of serially executed root fields is a separate piece of code (the reducer raises
the abort reason, `execute_operation` cleans up and re-raises), so it gets its own templates and
its own obligation -- findings recorded for the query templates do not cover it."""
from __future__ import annotations

from vf import concrete, forked, note, verdict
from vf import stubs

import graphql.type.scalars as scalars
import graphql.type.definition as definition
import graphql.execution.executor as executor

from harness.incremental_common import Family, run_incremental

stubs.const_inspect(scalars, definition, executor)

SDL = """
type Hero { id: ID name: String! slow: String slow2: String friends: [Hero] nn: String! }
type Query { n: Int }
type Mutation { first: Hero second: Hero list: [Hero] third: Int fourth: Hero! }
"""
HEAD = "mutation ($d0: Boolean = true, $d1: Boolean = true, $d2: Boolean = true, $d3: Boolean = true) "
DOCS = [
    # 0 a streamed list first, then slow fields: abort while a non-last root field is in flight
    HEAD + """{ list @stream(initialCount: 1, label: "S", if: $d0) { name } first { name slow } second { name ... @defer(label: "D", if: $d1) { slow2 } } third }""",
    # 1 no incremental delivery at all
    HEAD + """{ first { name slow } third second { slow slow2 } }""",
    # 2 a deferred root fragment next to serial fields
    HEAD + """{ ... @defer(label: "R", if: $d0) { first { slow } } second { name friends @stream(initialCount: 0, label: "T", if: $d1) { name } } third }""",
    # 3 the last root field is the slow one; an earlier one is non-null and may fail
    HEAD + """{ third fourth { nn name } first { slow ... @defer(label: "L", if: $d0) { slow2 } } }""",
]
ASYNCABLE = ["Hero.slow", "Hero.slow2", "Hero.name", "Mutation.first", "Mutation.second", "Mutation.third", "Hero.nn", "Mutation.fourth"]
FAMILY = Family(SDL, DOCS, ASYNCABLE, ("Hero", "Mutation", "Query"), ("friends", "list"))


class Reason(Exception):
    pass


def make_root(nn_null: bool):
    solo = {"id": "9", "name": "solo", "slow": "s-solo", "slow2": "s2-solo", "friends": [], "nn": "x"}
    han = {"id": "2", "name": "han", "slow": "s-han", "slow2": "s2-han", "friends": [solo, dict(solo, id="8", name="chewie")], "nn": "x"}
    luke = {"id": "1", "name": "luke", "slow": "s-luke", "slow2": "s2-luke", "friends": [han, solo, han], "nn": None if nn_null else "x"}
    return {"first": luke, "second": han, "list": [han, luke, solo], "third": 3, "fourth": luke, "n": 1}


def _check(doc, flags, bits, list_kind, early, lazy, choices, stop_after, abort_at, reason_kind, nn_null):
    root = make_root(nn_null)
    reason = [None, Reason("stop"), "not an exception"][reason_kind] if abort_at is not None else None
    try:
        d, loop, sched, world = run_incremental(doc, root, flags, bits, list_kind, early, lazy, choices,
                                                stop_after=stop_after, abort_at=abort_at, abort_reason=reason, family=FAMILY, unwind=True)
    except Exception:
        return (False, "harness exception")
    if d.hang:
        return (False, "the awaiting caller is never released")
    if loop._ready or loop.pending_tasks() or world.inflight:
        return (False, "not quiescent: pending tasks / resolver coroutines in flight")
    if world.gens_started != world.gens_closed:
        return (False, "source async iterator started but not closed exactly once")
    if loop.exceptions:
        return (False, "unhandled exception reported to the loop")
    if d.hook_calls != 1:
        how = {"rejected": " (the unwinding execution rejected with the abort reason)", "incremental": " (the unwinding execution produced incremental results that nobody iterates)",
               "result": " (the unwinding execution produced a single result)"}.get(getattr(d, "unwound", None), "")
        return (False, "work-finished hook fired " + str(d.hook_calls) + " times" + how)
    if d.hook_dirty:
        return (False, "work-finished hook fired before all tracked work settled")
    return (True, "")


def mutation_stop_points(f0: bool, f1: bool, b0: bool, b1: bool, b2: bool, b3: bool, b4: bool, b5: bool, lazy: bool, c0: int, c1: int, c2: int,
                         stop_after: int, abort_at: int, reason_kind: int, *, doc: int, list_kind: int, early: bool, kind: int, nn_null: bool = False) -> bool:
    """Serially executed root fields: for every stop point and stop kind the caller is released,
    the loop reaches quiescence, every started source is closed exactly once, and the
    work-finished hook fires exactly once after all tracked work settled."""
    flags = [True if f else False for f in (f0, f1)] + [True, True]
    bits = [True if b else False for b in (b0, b1, b2, b3, b4, b5)] + [True if (nn_null and b0) else False, False]
    sa = aa = None
    if kind == 1:
        sa = forked(stop_after, 0, 4)
    elif kind == 2:
        aa = forked(abort_at, 0, 7)
    rk = forked(reason_kind, 0, 3)
    r = concrete(_check, doc, flags, bits, list_kind, early, True if lazy else False, [c0, c1, c2], sa, aa, rk, nn_null)
    if not r[0]:
        note(r[1])
    return verdict(r[0])


BOUNDS = {
    "quick": ["4 mutation templates (streamed list + serial fields, no incremental delivery, deferred root fragment, failing non-null root field) x list kind (plain, async generator, awaitable items) x early execution x stop kind (none / aclose after 0..3 payloads / abort before the 0..6th settlement with 3 kinds of reason); symbolic directive flags, 6 sync-or-awaitable positions, consumer timing, 3 scheduler decisions"],
    "thorough": ["same cells, budget sized to exhaust each"],
}
ASSUMPTIONS = ["deterministic FIFO loop; settlements beyond the symbolic decisions are FIFO"]


def cells(tier):
    out = []
    for doc in range(len(DOCS)):
        for lk in (0, 1, 2):
            if doc in (1, 3) and lk != 0:
                continue
            for early in (False, True):
                for kind in (0, 1, 2):
                    if kind == 1 and doc == 1:
                        continue
                    out.append(dict(doc=doc, list_kind=lk, early=early, kind=kind, nn_null=(doc == 3)))
    return out


def obligations(tier):
    th = tier == "thorough"
    return [dict(fn="mutation_stop_points", cell=c, budget_s=900 if th else 20, expect_confirm=th) for c in cells(tier)]


def corpus():
    base = dict(f0=True, f1=True, b0=False, b1=False, b2=False, b3=False, b4=False, b5=False, lazy=False, c0=0, c1=0, c2=0, stop_after=1, abort_at=1, reason_kind=1)
    for c in cells("quick"):
        yield "mutation_stop_points", c, dict(base)
        yield "mutation_stop_points", c, dict(base, b0=True, b3=True, stop_after=0, abort_at=0, reason_kind=2)
        yield "mutation_stop_points", c, dict(base, b0=True, b4=True, lazy=True, stop_after=2, abort_at=2, reason_kind=0, c0=1)
        yield "mutation_stop_points", c, dict(base, b3=True, b4=True, b1=True, abort_at=3, reason_kind=1)
