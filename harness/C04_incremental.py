"""C04: incremental delivery reassembles to the non-incremental response.
   C05 (end-to-end part): the payload stream obeys the delivery protocol."""
from __future__ import annotations

from vf import assume, concrete, forked, verdict
from vf import stubs

import graphql.type.scalars as scalars
import graphql.type.definition as definition
import graphql.execution.executor as executor

from harness.incremental_common import (
    ASYNCABLE, DOCS, N_DIRECTIVES, ProtocolError, make_root, reassemble, reference, refines, run_incremental,
)

stubs.const_inspect(scalars, definition, executor)


def _run(doc, flags, bits, list_kind, early, lazy, nn_null, bad_raises, choices):
    root = make_root(nn_null, bad_raises)
    ref = reference(doc, root, N_DIRECTIVES[doc])
    if ref.errors:
        ref = reference(doc, root, N_DIRECTIVES[doc], propagate=False)  # the non-propagating reference
    d, loop, sched, world = run_incremental(doc, root, flags, bits, list_kind, early, lazy, choices)
    return ref, d, loop, sched, world


def _verdicts(doc, flags, bits, list_kind, early, lazy, nn_null, bad_raises, choices):
    """-> (reassembly ok, protocol ok, quiescent)"""
    try:
        ref, d, loop, sched, world = _run(doc, flags, bits, list_kind, early, lazy, nn_null, bad_raises, choices)
    except Exception:
        return False, False, False
    if d.hang or d.error is not None:
        return False, False, False
    quiescent = not loop.pending_tasks() and not world.inflight
    if d.single is not None:
        # no incremental delivery took place (all directives off / nothing deferred)
        same = d.single.data == ref.data if not ref.errors else refines(d.single.data, ref.data, False)
        return same, True, quiescent
    try:
        data, errors, failed = reassemble(d)
    except ProtocolError:
        return False, False, quiescent
    if not ref.errors:
        ok = data == ref.data and not errors
    else:
        ok = refines(data, ref.data, bool(failed)) and bool(errors)
    return ok, True, quiescent


def reassembly(f0: bool, f1: bool, f2: bool, f3: bool, b0: bool, b1: bool, b2: bool, b3: bool, b4: bool, b5: bool, b6: bool, b7: bool, lazy: bool,
               c0: int, c1: int, c2: int, c3: int, c4: int, c5: int, *, doc: int, list_kind: int, early: bool, nn_null: bool = False, bad_raises: bool = False) -> bool:
    """Applying the subsequent payloads to the initial one yields the response of the same
    operation with the directives disabled (error-free case), or a refinement of it with the
    withheld fragments reported as completed with errors."""
    flags = [True if f else False for f in (f0, f1, f2, f3)]
    bits = [True if b else False for b in (b0, b1, b2, b3, b4, b5, b6, b7)]
    r = concrete(_verdicts, doc, flags, bits, list_kind, early, True if lazy else False, nn_null, bad_raises, [c0, c1, c2, c3, c4, c5])
    return verdict(r[0] and r[2])


def protocol(f0: bool, f1: bool, f2: bool, f3: bool, b0: bool, b1: bool, b2: bool, b3: bool, b4: bool, b5: bool, b6: bool, b7: bool, lazy: bool,
             c0: int, c1: int, c2: int, c3: int, c4: int, c5: int, *, doc: int, list_kind: int, early: bool, nn_null: bool = False, bad_raises: bool = False) -> bool:
    """Pending before data, ids never reused, entries target pending ids and existing objects /
    lists, every announced id completed exactly once, no nested announcement while the enclosing
    fragment is pending, stream items in order, hasNext true except on the last payload."""
    flags = [True if f else False for f in (f0, f1, f2, f3)]
    bits = [True if b else False for b in (b0, b1, b2, b3, b4, b5, b6, b7)]
    r = concrete(_verdicts, doc, flags, bits, list_kind, early, True if lazy else False, nn_null, bad_raises, [c0, c1, c2, c3, c4, c5])
    # (stream items in list order without gaps or repeats is observed on the reassembled lists,
    # i.e. through the comparison with the reference)
    return verdict(r[1] and r[0])


BOUNDS = {
    "quick": [
        "15 request templates (below an outer defer: per-list-item defers with nested defers / an awaitable object field selected plainly and inside each item's deferred fragment; nested defers, stream inside defer, overlapping fragments at different defer depths, defer inside streamed items, initialCount 0/1/2, the same fragment deferred and plain, equal labels on different paths, non-null errors in deferred fragments and streams, a failing execution group shared by two fragments, stream + defer over one list)",
        "symbolic: the `if` of every directive (up to 4), sync/awaitable for 8 resolver positions, consumer pulls eagerly or after everything settled, 6 scheduler decisions (completion order); cells: template x list kind (plain / async generator / list of awaitables) x enable_early_execution x error injection",
    ],
    "thorough": ["same cells, larger budget"],
}
ASSUMPTIONS = [
    "deterministic FIFO loop without timers; completion orders beyond the 6th symbolic decision are FIFO",
    "when errors propagate only 'refinement of the reference + withheld fragments reported completed with errors' is claimed, as the property states",
    "labels in the templates encode nesting; the no-nested-announcement clause is checked through them",
]


def cells(tier):
    th = tier == "thorough"
    out = []
    for doc in range(len(DOCS)):
        for lk in (0, 1, 2):
            for early in (False, True):
                errs = [(False, False)]
                if doc in (4, 7, 10, 12):
                    errs = [(False, False), (True, False)]
                if doc == 5:
                    errs = [(False, True), (False, False)]
                for nn_null, bad in errs:
                    if not th and lk == 2 and doc not in (0, 2, 11):
                        continue
                    if not th and lk == 1 and doc in (5, 7, 8, 10):
                        continue
                    out.append(dict(doc=doc, list_kind=lk, early=early, nn_null=nn_null, bad_raises=bad))
    return out


def obligations(tier):
    th = tier == "thorough"
    B = 1800 if th else 50
    return [dict(fn="reassembly", cell=c, budget_s=B, expect_confirm=th) for c in cells(tier)]


def corpus():
    base = dict(f0=True, f1=True, f2=True, f3=True, b0=False, b1=False, b2=False, b3=False, b4=False, b5=False, b6=False, b7=False, lazy=False, c0=0, c1=0, c2=0, c3=0, c4=0, c5=0)
    for c in cells("thorough"):
        for fn in ("reassembly", "protocol"):
            yield fn, c, dict(base)
            yield fn, c, dict(base, b0=True, b1=True, b3=True, c0=1, c1=2, lazy=True)
            yield fn, c, dict(base, f0=False, f2=False, b0=True, b2=True, b5=True, c0=2, c1=0, c2=1)
            yield fn, c, dict(base, b6=True, b7=True, c0=1)
            yield fn, c, dict(base, b6=True, c0=0, lazy=True)
            if c["doc"] in (13, 14):
                yield fn, c, dict(base, b2=True, b4=True, c1=1)
                yield fn, c, dict(base, b0=True, b4=True, c0=1, c2=1)
