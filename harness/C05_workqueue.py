"""C05 unit level: WorkQueue on symbolic work graphs (groups with parents, tasks in 1..n groups,
each task succeeding / failing / settling later in a symbolic order)."""
from __future__ import annotations

from vf import assume, concrete, forked, verdict
from vf.detloop import DetLoop, Hang, Scheduler

from graphql.execution.incremental import Computation
from graphql.execution.incremental.work_queue import (
    GroupFailureEvent, GroupSuccessEvent, GroupValuesEvent, Work, WorkQueue, WorkQueueTerminationEvent, WorkResult, WorkTask,
)


class Group:
    def __init__(self, parent=None, name="g"):
        self.parent = parent
        self.name = name

    def __repr__(self):
        return "<" + self.name + ">"


class Boom(Exception):
    pass


# forest shapes over three groups: parent index per group (-1 = root)
SHAPES = [(-1, -1, -1), (-1, 0, 0), (-1, 0, 1), (-1, 0, -1), (-1, -1, 1)]
# non-empty subsets of {G0, G1, G2}
SUBSETS = [(0,), (1,), (2,), (0, 1), (0, 2), (1, 2), (0, 1, 2)]


def reachable(shape, memberships) -> bool:
    """The execution plan never puts a task into a group together with one of that group's
    ancestors (a field requested by a fragment and by a fragment nested in it is delivered with
    the outer one only), so such work graphs are not reachable states."""
    parents = SHAPES[shape]
    for mi in memberships:
        gs = SUBSETS[mi]
        for g in gs:
            a = parents[g]
            while a >= 0:
                if a in gs:
                    return False
                a = parents[a]
    return True


def _run(shape, memberships, outcomes, choices):
    if not reachable(shape, memberships):
        return None
    parents = SHAPES[shape]
    groups = []
    for i, p in enumerate(parents):
        groups.append(Group(groups[p] if p >= 0 else None, "G" + str(i)))
    loop = DetLoop()
    sched = Scheduler(loop, choices)
    started = []
    tasks = []
    for t, (mi, oc) in enumerate(zip(memberships, outcomes)):
        gs = [groups[g] for g in SUBSETS[mi]]

        def fn(t=t, oc=oc):
            started.append(t)
            if oc == 0:
                return WorkResult("v" + str(t))
            if oc == 1:
                raise Boom("t" + str(t))
            return sched.future(WorkResult("v" + str(t)), None, "t" + str(t)) if oc == 2 else sched.future(None, Boom("t" + str(t)), "t" + str(t))
        tasks.append(WorkTask(gs, Computation(fn)))
    events = []
    with loop:
        queue = WorkQueue(Work(groups=groups, tasks=tasks))

        async def consume():
            async for batch in queue.events():
                events.extend(batch)
        try:
            _r, exc = sched.drive(consume())
        except Hang:
            return False
        if exc is not None:
            return False
    # ---- validator over the emitted events
    if not events or not isinstance(events[-1], WorkQueueTerminationEvent):
        return False
    if sum(isinstance(e, WorkQueueTerminationEvent) for e in events) != 1:
        return False
    tasks_of = {g: [t for t, mi in enumerate(memberships) if gi in SUBSETS[mi]] for gi, g in enumerate(groups)}
    terminal = {}
    announced = set(g for g in groups if g.parent is None and tasks_of[g]) | set(queue.initial_groups)
    for e in events:
        if isinstance(e, GroupSuccessEvent):
            g = e.group
            if g in terminal:
                return False
            terminal[g] = "ok"
            # success only when every task of the group returned / settled successfully
            for t in tasks_of[g]:
                if outcomes[t] in (1, 3):
                    return False
            announced |= set(e.new_groups)
            # a child is only promoted by its parent's success
            for ng in e.new_groups:
                anc = ng.parent
                ok = False
                while anc is not None:
                    if anc is g:
                        ok = True
                    anc = anc.parent
                if not ok:
                    return False
        elif isinstance(e, GroupFailureEvent):
            g = e.group
            if g in terminal:
                return False
            terminal[g] = "failed"
            if not any(outcomes[t] in (1, 3) for t in tasks_of[g]):
                return False  # a group without a failing task was failed
        elif isinstance(e, GroupValuesEvent):
            if e.group in terminal:
                return False
    # once a group failed, nothing of its subtree succeeds afterwards
    for g, st in terminal.items():
        if st == "ok":
            anc = g.parent
            while anc is not None:
                if terminal.get(anc) == "failed":
                    return False
                anc = anc.parent
    # every announced (root or promoted) group reaches exactly one terminal event
    for g in announced:
        if g not in terminal:
            return False
    return not loop.pending_tasks()


def work_graph(shape: int, m0: int, m1: int, m2: int, o0: int, o1: int, o2: int, c0: int, c1: int, c2: int, *, ntasks: int) -> bool:
    """Every forest of 3 groups x tasks in any non-empty subset of groups x each task returning,
    raising, or settling later (success / failure) in any order: success only after all tasks,
    children promoted only by their parent's success, one terminal event per announced group,
    nothing of a failed subtree succeeds, exactly one termination event, at the end."""
    shape = forked(shape, 0, len(SHAPES))
    ms = [forked(m, 0, len(SUBSETS)) for m in (m0, m1, m2)][:ntasks]
    os_ = [forked(o, 0, 4) for o in (o0, o1, o2)][:ntasks]
    try:
        r = concrete(_run, shape, ms, os_, [c0, c1, c2])
    except Exception:
        return verdict(False)
    assume(r is not None)
    return verdict(r)


BOUNDS = {"quick": ["WorkQueue: 5 forests over 3 groups x 1..2 tasks (3 in thorough) each in any of 7 group subsets x 4 outcomes x settlement order"],
          "thorough": ["3 tasks"]}
ASSUMPTIONS = ["work graphs in which a task belongs to a group and to one of its ancestors are excluded (not produced by the execution plan; on such a graph the queue never terminates)", "streams and nested work delivered by task results are exercised end to end (C04/C05 templates), not at unit level"]


def obligations(tier):
    th = tier == "thorough"
    return [dict(fn="work_graph", cell=dict(ntasks=n), budget_s=1800 if th else 120, expect_confirm=th or n < 3) for n in ((1, 2, 3) if th else (1, 2))]


def corpus():
    yield "work_graph", dict(ntasks=2), dict(shape=1, m0=5, m1=0, m2=0, o0=1, o1=0, o2=0, c0=0, c1=0, c2=0)   # failing task shared by two sibling children
    yield "work_graph", dict(ntasks=3), dict(shape=2, m0=0, m1=1, m2=2, o0=2, o1=2, o2=3, c0=2, c1=0, c2=0)
    yield "work_graph", dict(ntasks=1), dict(shape=0, m0=6, m1=0, m2=0, o0=0, o1=0, o2=0, c0=0, c1=0, c2=0)
