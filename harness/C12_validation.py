"""C12: validation is a deterministic, compositional function of document and schema."""
from __future__ import annotations

import copy

from vf import assume, concrete, forked, verdict

from graphql import build_schema, parse, print_ast, print_schema, specified_rules, validate
from graphql.utilities import strip_ignored_characters

SDL_A = """
interface Node { id: ID! name: String }
type User implements Node { id: ID! name: String age: Int friends(first: Int = 2): [User!] best: User pet: Pet }
type Post implements Node { id: ID! name: String author: User! score: Float }
type Dog { name: String bark: Int owner: User } type Cat { name: String! bark: String owner: User }
union Pet = Dog | Cat
union Item = User | Post
enum Tag { A B }
input Flt { min: Int = 0 max: Int words: [String!] }
input One @oneOf { a: Int b: String }
type Query { me: User node(id: ID!): Node items: [Item] echo(x: Int, f: Flt, t: Tag, o: One): String pets: [Pet] }
type Mutation { inc(by: Int = 1): Int set(name: String!): User }
type Subscription { tick: Int msgs(room: Int): Post }
directive @tag(name: String!) repeatable on FIELD | QUERY | FRAGMENT_SPREAD
"""
# same names, different field types (for the history obligation)
SDL_B = SDL_A.replace("type Dog { name: String bark: Int", "type Dog { name: Int bark: String").replace("age: Int", "age: String")
SCHEMA_A = build_schema(SDL_A)
SCHEMA_B = build_schema(SDL_B)

DOCS = [
    "{ me { id name } }",
    "query Q($a: Int, $u: Int) { me { friends(first: $a) { id } } } query Q { me { id } }",
    "{ me { zz name { x } best } nope ...Missing }",
    "query ($v: String) { echo(x: $v, x: 1, y: 2, f: {min: \"s\", zz: 1, min: 2}, t: C, o: {a: 1, b: \"x\"}) }",
    "{ me { ...A } } fragment A on User { ...B } fragment B on User { ...A name } fragment Unused on User { id } fragment A on User { id }",
    "{ pets { ... on Dog { x: name bark } ... on Cat { x: name bark } ... on User { id } } items { ... on Dog { name } } }",
    "{ me { a: name a: id friends(first: 1) { id } friends(first: 2) { id } } }",
    "subscription S { tick msgs { id } ...F @skip(if: true) } fragment F on Subscription { tick }",
    "subscription { __typename tick @include(if: $x) }",
    "mutation { inc(by: \"x\") set { id } ... @defer { inc } } ",
    "query Q @tag @tag(name: 1) @unknown @skip(if: true) { me @tag(name: \"a\") @tag(name: \"b\") @skip @skip(if: false) { id } }",
    "{ me { friends @stream(initialCount: -1) { id } ... @defer(label: $l) { name } ... @defer(label: \"a\") { age } ... @defer(label: \"a\") { id } } }",
    "query ($a: Int = \"s\", $a: Int, $b: Missing, $c: User, $d: [Int!] = [null]) { echo(x: $a) node(id: $zz) { id } }",
    "fragment F on Int { x } fragment G on Missing { y } { ...F ...G me { ... on Post { id } ... on Node { id } } }",
    "{ echo(f: {words: [1, \"a\", null], max: 1.5}, o: {}, t: \"A\") node { id } }",
    "type Foo { x: Int } { me { id } } extend type Query { y: Int }",
    "\"desc\" query D(\"v\" $v: Int) { echo(x: $v) } { anonymous: me { id } }",
    "{ me { ...A ...A } } fragment A on User { best { ...A } }",
    # rules that skip a subtree (literal arguments, whole definitions) next to rules that must still see what follows inside it
    "query Q { echo(x: 1) @skip(if: true, bogus: 2) me { friends(first: 1, nope: 2) @include(if: false, zz: [1]) { id @tag(name: \"n\", extra: {a: 1}) } } }",
    "query Q($v: Int) { echo(f: {min: 1, bad: {deep: $w}}, x: [1, $v]) @tag(name: 1, name: 2) ...F @tag(nme: \"x\") } fragment F on Query { echo(t: A, tt: B) @skip(if: 1, iff: 2) }",
]
RULES = list(specified_rules)
N_RULES = len(RULES)


def messages(errors):
    return sorted((e.message, tuple((l.line, l.column) for l in (e.locations or []))) for e in errors)


def msgs_only(errors):
    return sorted(e.message for e in errors)


PARSE_KW = dict(experimental_fragment_arguments=False)


def _pair(doc_i, i, j) -> bool:
    doc = parse(DOCS[doc_i])
    both = messages(validate(SCHEMA_A, doc, [RULES[i], RULES[j]]))
    single = messages(validate(SCHEMA_A, doc, [RULES[i]]) + validate(SCHEMA_A, doc, [RULES[j]]))
    swapped = messages(validate(SCHEMA_A, doc, [RULES[j], RULES[i]]))
    return both == single == swapped


def rule_pairs(i: int, j: int, *, doc: int) -> bool:
    """validate(doc, [Ri, Rj]) reports exactly what Ri and Rj report alone, in either order."""
    i = forked(i, 0, N_RULES)
    j = forked(j, 0, N_RULES)
    assume(i < j)
    try:
        return verdict(concrete(_pair, doc, i, j))
    except Exception:
        return verdict(False)


def _all_rules(doc_i, drop, rot) -> bool:
    doc = parse(DOCS[doc_i])
    before_doc = copy.deepcopy(doc)
    before_schema = print_schema(SCHEMA_A)
    full = validate(SCHEMA_A, doc)
    singles = []
    for r in RULES:
        singles += validate(SCHEMA_A, doc, [r])
    if messages(full) != messages(singles):
        return False
    rules = RULES[rot:] + RULES[:rot]
    if messages(validate(SCHEMA_A, doc, rules)) != messages(full):
        return False
    rest = [r for k, r in enumerate(RULES) if k != drop]
    expect = []
    for r in rest:
        expect += validate(SCHEMA_A, doc, [r])
    if messages(validate(SCHEMA_A, doc, rest)) != messages(expect):
        return False
    again = validate(SCHEMA_A, doc)
    if [(e.message, e.locations) for e in again] != [(e.message, e.locations) for e in full]:
        return False
    return doc == before_doc and print_schema(SCHEMA_A) == before_schema


def all_rules(k: int, *, doc: int, mode: int) -> bool:
    """All rules = union of the singletons; all-but-one likewise; any rotation of the rule
    list; validating twice gives the same list; document and schema are not modified."""
    k = forked(k, 0, N_RULES)
    drop, rot = (k, 0) if mode == 0 else (0, k)
    try:
        return verdict(concrete(_all_rules, doc, drop, rot))
    except Exception:
        return verdict(False)


def _invariance(doc_i, how) -> bool:
    text = DOCS[doc_i]
    doc = parse(text)
    base = msgs_only(validate(SCHEMA_A, doc))
    if how == 0:
        other = parse(print_ast(doc))
    elif how == 1:
        other = parse(strip_ignored_characters(text))
    elif how == 2:
        other = parse("# c\n ,﻿ " + text.replace("{", "{\n  ,").replace("(", "( "))
    else:
        # descriptions on operations, fragments and variable definitions
        if '"desc"' in text:
            return True  # already described
        t2 = text.replace("query ", '"""d""" query ').replace("fragment ", '"d" fragment ').replace("($", '("v" $')
        other = parse(t2)
    return msgs_only(validate(SCHEMA_A, other)) == base


def layout_invariance(how: int, *, doc: int) -> bool:
    """Messages are unchanged by reprinting, stripping / adding ignored characters, adding descriptions."""
    how = forked(how, 0, 4)
    try:
        return verdict(concrete(_invariance, doc, how))
    except Exception:
        return verdict(False)


def _max_errors(doc_i, n) -> bool:
    doc = parse(DOCS[doc_i])
    full = validate(SCHEMA_A, doc, max_errors=None)
    limited = validate(SCHEMA_A, doc, max_errors=n)
    fm = [(e.message, e.locations) for e in full]
    lm = [(e.message, e.locations) for e in limited]
    if len(full) <= n:
        return lm == fm
    return len(limited) == n + 1 and lm[:n] == fm[:n] and "Too many validation errors" in limited[n].message


def error_limit(n: int, *, doc: int) -> bool:
    """max_errors = n: the first n errors of the unlimited list plus one abort notice iff more exist."""
    n = forked(n, 0, 12)
    try:
        return verdict(concrete(_max_errors, doc, n))
    except Exception:
        return verdict(False)


def _history(d1, d2, order) -> bool:
    """validate is a function of (schema, document): interleaving other validations (other
    documents, the same text against another schema) does not change the answer."""
    text1, text2 = DOCS[d1], DOCS[d2]
    fresh = msgs_only(validate(SCHEMA_B, parse(" " + text2)))  # shifted offsets: independent of any node-keyed memo
    if order == 0:
        validate(SCHEMA_A, parse(text1))
        validate(SCHEMA_A, parse(text2))
    elif order == 1:
        validate(SCHEMA_A, parse(text2))
        validate(SCHEMA_B, parse(text1))
    else:
        validate(SCHEMA_B, parse(text1))
    return msgs_only(validate(SCHEMA_B, parse(text2))) == fresh


def history_independence(d2: int, order: int, *, d1: int) -> bool:
    d2 = forked(d2, 0, len(DOCS))
    order = forked(order, 0, 3)
    try:
        return verdict(concrete(_history, d1, d2, order))
    except Exception:
        return verdict(False)


BOUNDS = {
    "quick": [
        f"{len(DOCS)} documents (valid, near-valid and ill-typed: unknown fields/types/arguments, duplicate names, fragment cycles, unused and undefined variables/fragments, overlapping fields, subscriptions, defer/stream misuse, input object and OneOf errors, executable+SDL mixes, descriptions)",
        f"every pair i<j of the {N_RULES} specified rules (both orders) on every document; all rules vs the singletons, every all-but-one subset, every rotation of the rule list, repetition, non-mutation",
        "4 layout rewrites (reprint, strip, added ignored material, added descriptions); max_errors 0..11; history: every document validated after 3 interleavings with every other document / another schema",
    ],
    "thorough": ["same (finite families, fully explored)"],
}
ASSUMPTIONS = [
    "arbitrary subsets of more than 2 rules other than 'all' and 'all but one' are outside the claim; documents outside the corpus are outside",
    "the rule indices / document indices are solver-forked; validation then runs on concrete data without opcode tracing (vf.concrete)",
]


def obligations(tier):
    B = 900 if tier == "thorough" else 150
    obs = []
    for d in range(len(DOCS)):
        obs.append(dict(fn="rule_pairs", cell=dict(doc=d), budget_s=B))
        obs.append(dict(fn="all_rules", cell=dict(doc=d, mode=0), budget_s=B))
        obs.append(dict(fn="all_rules", cell=dict(doc=d, mode=1), budget_s=B))
        obs.append(dict(fn="layout_invariance", cell=dict(doc=d), budget_s=B))
        obs.append(dict(fn="error_limit", cell=dict(doc=d), budget_s=B))
        obs.append(dict(fn="history_independence", cell=dict(d1=d), budget_s=B))
    return obs


def corpus():
    for d in range(len(DOCS)):
        yield "rule_pairs", dict(doc=d), dict(i=0, j=5)
        yield "all_rules", dict(doc=d, mode=0), dict(k=3)
        yield "all_rules", dict(doc=d, mode=1), dict(k=7)
        for how in range(4):
            yield "layout_invariance", dict(doc=d), dict(how=how)
        yield "error_limit", dict(doc=d), dict(n=1)
        yield "error_limit", dict(doc=d), dict(n=3)
        yield "history_independence", dict(d1=d), dict(d2=(d + 1) % len(DOCS), order=1)
