"""C09: ignored tokens are ignored; tokens are those of the lexical grammar; strip; max_tokens."""
from __future__ import annotations

from vf import assume, fixlen, forked, verdict
from vf import stubs
from vf.oracles.spec_lexer import spec_token, spec_tokens

from graphql.error import GraphQLSyntaxError
from graphql.language import Lexer, Source, TokenKind, parse
from graphql.utilities import strip_ignored_characters

from harness.lexer_common import lexer_cells, no_surrogates, first_char_class  # noqa: F401
from harness.lexer_common import lexer_step  # noqa: F401  (obligation function, re-exported)

stubs.fast_syntax_error()

DOCS = [
    'query Q($a: Int = 1, $b: [String!]! = ["x"]) @d(x: 1.5) { a: f(x: $a, y: {k: [1, -2.0e3, "s", """b""", true, null, E]}) ... on T { g } ...F }',
    "fragment F on T @d { h } { x }",
    '"""desc""" type T implements I & J @d { "d" f(a: Int = 1): [T!]! } extend union U = | A | B enum E { X Y } '
    "directive @d(x: Int) repeatable on FIELD | QUERY schema { query: T }",
    "{ a(s: \"\\u{1F600}\\n\") # c\n b }",
    '"""\n  Summary\n\n      indented example\n  """ type T { "d" f(a: String = """ x\n\n   y"""): Int }',
]
BOUNDARIES = []
for _d in DOCS:
    _t = spec_tokens(_d)
    assert _t is not None
    BOUNDARIES.append([0] + [t[2] for t in _t])

IGNORED = " \t,\n\r﻿"


def _parse(text, **kw):
    """-> ('ok', ast) | ('syntax', None); any other exception propagates to the caller's guard."""
    try:
        return ("ok", parse(text, no_location=True, **kw))
    except GraphQLSyntaxError:
        return ("syntax", None)


def real_tokens(s: str):
    """All non-comment tokens via Lexer.advance (the parser's view), or None."""
    lx = Lexer(Source(s))
    out = []
    try:
        while True:
            t = lx.advance()
            if t.kind == TokenKind.EOF:
                return out
            out.append((t.kind.value, t.start, t.end, t.value))
    except GraphQLSyntaxError:
        return None


def token_stream(s: str, *, length: int, cls: int) -> bool:
    """Whole short strings: the token stream (through advance/lookahead) equals the grammar's,
    spans are ordered and disjoint, and every gap holds only ignored characters or comments."""
    assume(len(s) == length)
    if length:
        assume(first_char_class(s[0]) == cls)
    assume(no_surrogates(s))
    try:
        real = real_tokens(s)
    except Exception:
        return verdict(False)
    if real != spec_tokens(s):
        return verdict(False)
    if real is None:
        return verdict(True)
    pos = 0
    for kind, start, end, _v in real:
        if not (pos <= start < end):
            return verdict(False)
        gap = s[pos:start]
        in_comment = False
        for c in gap:
            if in_comment:
                if c in "\n\r":
                    in_comment = False
            elif c == "#":
                in_comment = True
            elif c not in IGNORED:
                return verdict(False)
        pos = end
    return verdict(True)


def ignored_insertion(j: int, g: str, comment: bool, c: str, *, doc: int, jlo: int, jhi: int, glen: int) -> bool:
    """Inserting an ignored sequence at any token boundary leaves the parsed tree unchanged."""
    text = DOCS[doc]
    bounds = BOUNDARIES[doc]
    j = forked(j, jlo, min(jhi, len(bounds)))
    assume(len(g) <= glen)
    g = fixlen(g, glen)
    for ch in g:
        assume(ch in IGNORED)
    if comment:
        assume(len(c) == 1)
        c = c[0]
        assume(c not in "\n\r" and no_surrogates(c))
        g = g + "#" + c + "\n"
    at = bounds[j]
    mutated = text[:at] + g + text[at:]
    try:
        a = _parse(mutated)
        b = _parse(text)
    except Exception:
        return verdict(False)
    return verdict(b[0] == "ok" and a == b)


def strip_substituted(p: int, c: str, *, doc: int, plo: int, phi: int) -> bool:
    """strip_ignored_characters on a document with one arbitrary character substituted:
    idempotent, same tree, and text that does not lex is rejected before and after."""
    text = DOCS[doc]
    p = forked(p, plo, min(phi, len(text)))
    assume(len(c) == 1)
    c = c[0]
    assume(no_surrogates(c))
    x = text[:p] + c + text[p + 1 :]
    return verdict(_strip_props(x))


def strip_short(s: str, *, length: int, cls: int) -> bool:
    assume(len(s) == length)
    if length:
        assume(first_char_class(s[0]) == cls)
    assume(no_surrogates(s))
    return verdict(_strip_props(s))


def _strip_props(x: str) -> bool:
    try:
        lexes = spec_tokens(x) is not None
        try:
            s1 = strip_ignored_characters(x)
        except GraphQLSyntaxError:
            return not lexes
        if not lexes:
            return False
        s2 = strip_ignored_characters(s1)  # must not raise: stripped text lexes
        if s2 != s1:
            return False
        # same tokens (kind and value) before and after
        ta = spec_tokens(x)
        tb = spec_tokens(s1)
        if tb is None or [(k, v) for k, _s, _e, v in ta] != [(k, v) for k, _s, _e, v in tb]:
            return False
        return _parse(x) == _parse(s1)
    except Exception:
        return False


TOKEN_TEXTS = ["a", "_9", "1", "-0", "1.5", "1e3", '"s"', '""', '"""b"""', "...", "!", "$", "{", "@", ":", "on"]


def strip_adjacent(k: int, sep: str, *, i: int) -> bool:
    """Two arbitrary tokens separated by arbitrary ignored text re-lex to the same two tokens
    after stripping (the space-insertion rule between non-punctuators / before '...')."""
    k = forked(k, 0, len(TOKEN_TEXTS))
    assume(1 <= len(sep) <= 2)
    sep = fixlen(sep, 2)
    for ch in sep:
        assume(ch in IGNORED)
    x = TOKEN_TEXTS[i] + sep + TOKEN_TEXTS[k]
    try:
        s1 = strip_ignored_characters(x)
        ta = spec_tokens(x)
        tb = spec_tokens(s1)
    except Exception:
        return verdict(False)
    if ta is None or tb is None:
        return verdict(False)
    return verdict([(a[0], a[3]) for a in ta] == [(b[0], b[3]) for b in tb] and strip_ignored_characters(s1) == s1)


def max_tokens_exact(n: int, *, doc: int) -> bool:
    """A token limit of n accepts exactly the documents with at most n tokens."""
    text = DOCS[doc]
    count = len(spec_tokens(text))
    assume(0 <= n <= count + 2)
    try:
        r = _parse(text, max_tokens=n)
        full = parse(text)
    except Exception:
        return verdict(False)
    if full.token_count != count:  # type: ignore[attr-defined]
        return verdict(False)
    return verdict((r[0] == "ok") == (n >= count))


BOUNDS = {
    "quick": [
        "lexer vs grammar: every scalar-value string of exactly 0..3 code points, one read_next_token step (cells by class of first char)",
        "token stream/gaps: every scalar-value string of <= 2 code points",
        "ignored insertion: 2 corpus documents (4 in thorough) x every token boundary x ignored sequence of <= 1 (2 in thorough) chars from {space,tab,comma,LF,CR,BOM} optionally followed by a comment '#c\\n' with arbitrary c",
        "strip: 2 corpus documents (4 in thorough) x every position x substitution by any scalar value; every string <= 2; 16x16 token pairs x separators <= 2",
        "max_tokens: n in [0, count+2] on 4 corpus documents",
    ],
    "thorough": [
        "as quick, with lexer step and token stream up to 4 / 3 code points (cells by class of first two chars) and strip on strings <= 3",
    ],
}
ASSUMPTIONS = [
    "source text consists of Unicode scalar values (surrogates are covered by C01 totality only)",
    "GraphQLSyntaxError construction is stubbed (no location rendering); replay uses the real class",
    "documents outside the 4-document corpus are outside the insertion/strip/max_tokens claim",
]


def obligations(tier):
    thorough = tier == "thorough"
    obs = [o for o in lexer_cells(4 if thorough else 3, 900 if thorough else 120, full_last=thorough) if o["cell"]["scalar_only"]]
    for n in range(0, (3 if thorough else 2) + 1):
        for cls in range(6 if n else 1):
            obs.append(dict(fn="token_stream", cell=dict(length=n, cls=cls), budget_s=900 if thorough else 120))
            obs.append(dict(fn="strip_short", cell=dict(length=n, cls=cls), budget_s=900 if thorough else 120))
    docs = range(len(DOCS)) if thorough else (1, 3, 4)
    for d in docs:
        nb = len(BOUNDARIES[d])
        step = 4
        for lo in range(0, nb, step):
            obs.append(dict(fn="ignored_insertion", cell=dict(doc=d, jlo=lo, jhi=lo + step, glen=2 if thorough else 1), budget_s=900 if thorough else 150))
        step = 6
        for lo in range(0, len(DOCS[d]), step):
            obs.append(dict(fn="strip_substituted", cell=dict(doc=d, plo=lo, phi=lo + step), budget_s=900 if thorough else 150))
        obs.append(dict(fn="max_tokens_exact", cell=dict(doc=d), budget_s=120))
    for i in range(len(TOKEN_TEXTS)):
        obs.append(dict(fn="strip_adjacent", cell=dict(i=i), budget_s=600 if thorough else 150))
    return obs


def corpus():
    from harness.lexer_common import corpus as lc

    yield from lc()
    for d in range(len(DOCS)):
        yield "ignored_insertion", dict(doc=d, jlo=0, jhi=99, glen=2), dict(j=3, g=" ,", comment=True, c="x")
        yield "strip_substituted", dict(doc=d, plo=0, phi=999), dict(p=2, c=DOCS[d][2])
        yield "max_tokens_exact", dict(doc=d), dict(n=5)
    yield "token_stream", dict(length=3, cls=first_char_class("{")), dict(s="{a}")
    yield "strip_short", dict(length=3, cls=4), dict(s="a b")
    yield "strip_adjacent", dict(i=2), dict(k=9, sep=" ")
