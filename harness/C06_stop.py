"""C06: stopping early never hangs or leaks: work settles and sources are closed."""
from __future__ import annotations

from vf import assume, concrete, forked, note, verdict
from vf import stubs

import graphql.type.scalars as scalars
import graphql.type.definition as definition
import graphql.execution.executor as executor

from harness.incremental_common import DOCS, make_root, run_incremental

stubs.const_inspect(scalars, definition, executor)


class Reason(Exception):
    pass


def _check(doc, flags, bits, list_kind, early, lazy, choices, stop_after, abort_at, reason_kind, source_fail_at, nn_null, bad_raises=False):
    root = make_root(nn_null, bad_raises)
    reason = [None, Reason("stop"), "not an exception"][reason_kind] if abort_at is not None else None
    try:
        d, loop, sched, world = run_incremental(doc, root, flags, bits, list_kind, early, lazy, choices,
                                                stop_after=stop_after, abort_at=abort_at, abort_reason=reason, source_fail_at=source_fail_at)
    except Exception:
        return (False, "harness exception")
    if d.hang:
        return (False, "the awaiting caller is never released")
    # (d.leftover -- resolver coroutines not yet cancelled/finished when the response was complete --
    # is recorded but not judged: work that is merely still running is allowed by the documented
    # contract as long as it settles and the hook fires afterwards)
    if loop._ready or loop.pending_tasks() or world.inflight:
        return (False, "not quiescent: pending tasks / resolver coroutines in flight")
    if any(it.aclose_calls > 1 for it in world.iterators):
        return (False, "source async iterator closed more than once")
    if world.gens_started != world.gens_closed:
        return (False, "source async iterator started but not closed exactly once")
    if loop.exceptions:
        return (False, "unhandled exception reported to the loop")
    if d.hook_calls != 1:
        return (False, "work-finished hook fired " + str(d.hook_calls) + " times")
    if d.hook_dirty:
        return (False, "work-finished hook fired before all tracked work settled")
    return (True, "")


def stop_points(f0: bool, f1: bool, b0: bool, b1: bool, b2: bool, b3: bool, b4: bool, lazy: bool, c0: int, c1: int, c2: int, c3: int,
                stop_after: int, abort_at: int, reason_kind: int, *, doc: int, list_kind: int, early: bool, kind: int, nn_null: bool = False, bad_raises: bool = False) -> bool:
    """For every stop point and stop kind: the caller is released, the loop reaches quiescence
    with nothing started by the execution still pending, every started source iterator is closed
    exactly once, and the work-finished hook fires exactly once after all tracked work settled."""
    flags = [True if f else False for f in (f0, f1)] + [True, True]
    bits = [True if b else False for b in (b0, b1, b2, b3)] + [False, True if b4 else False, False, False]
    sa = aa = sf = None
    if list_kind == 3:
        aa = 99        # an abort signal is configured but never fires
    if kind == 0:      # no stop: run to completion
        pass
    elif kind == 1:    # aclose() of the payload stream after k payloads
        sa = forked(stop_after, 0, 4)
    elif kind == 2:    # abort signal before the t-th settlement
        aa = forked(abort_at, 0, 6)
    elif kind == 3:    # the source iterator raises at position p
        sf = forked(stop_after, 0, 3)
    rk = forked(reason_kind, 0, 3)
    r = concrete(_check, doc, flags, bits, list_kind, early, True if lazy else False, [c0, c1, c2, c3], sa, aa, rk, sf, nn_null, bad_raises)
    if not r[0]:
        note(r[1])
    return verdict(r[0])


def _blocked(flags, bits, list_kind, early, lazy, choices, doc=10) -> tuple:
    """Template 10 with a deferred resolver that never completes on its own: once the position it
    belongs to has been nulled by an (asynchronous) non-null error, it must be cancelled -- after
    the response is complete nothing may be left pending."""
    root = make_root(True, False)
    try:
        d, loop, sched, world = run_incremental(doc, root, flags, bits, list_kind, early, lazy, choices, never=("Hero.slow",))
    except Exception:
        return (False, "harness exception")
    if d.hang:
        return (False, "the awaiting caller is never released")
    if loop.pending_tasks() or world.inflight:
        return (False, "a resolver that never completes was not cancelled although its position was nulled")
    return (True, "")


def blocked_deferred_resolver(b2: bool, b4: bool, lazy: bool, c0: int, c1: int, c2: int, *, list_kind: int, early: bool, doc: int = 10) -> bool:
    # (only the deferred case: without @defer the executor deliberately lets orphaned awaitables
    # settle instead of cancelling them, so a resolver that never completes is outside its contract)
    flags = [True, True, True, True]
    bits = [False, False, True if b2 else False, False, False, True if b4 else False, False, False]
    r = concrete(_blocked, flags, bits, list_kind, early, True if lazy else False, [c0, c1, c2, 0], doc)
    if not r[0]:
        note(r[1])
    return verdict(r[0])


BOUNDS = {
    "quick": [
        "templates 0, 2, 4, 6, 10, 11, 15 of the incremental family (15: a stream whose second item fails as a whole, possibly asynchronously); hand-written source iterators count their aclose() calls; stop kinds: none / aclose after 0..3 payloads / abort signal (AbortError, an exception, a non-exception reason) before the 0..5th settlement / source iterator raising at item 0..2 / resolver errors; template 16 (plain execution): synchronously raising non-null fields next to pending awaitable siblings at two nested levels; symbolic directive flags, 5 sync-or-awaitable positions, consumer timing, 4 scheduler decisions; cells: template x list kind x early execution x stop kind",
    ],
    "thorough": ["all 12 templates, larger budget"],
}
ASSUMPTIONS = [
    "deterministic FIFO loop; leaks that only a selector loop or GC finalisation order can show and wall-clock promptness are outside",
    "'promptly' is checked as 'the awaited call completes without further external events' (no Hang)",
]


def cells(tier):
    th = tier == "thorough"
    out = []
    for doc in (range(len(DOCS)) if th else (0, 2, 4, 6, 10, 11, 15)):
        for lk in (0, 1, 2, 3):
            for early in (False, True):
                for kind in (0, 1, 2, 3):
                    if kind == 3 and lk != 1:
                        continue
                    if lk == 3 and (kind not in (0, 1) or doc not in (2, 4, 11, 15)):
                        continue
                    if not th and lk == 2 and kind in (0,):
                        continue
                    if doc == 16:
                        continue
                    out.append(dict(doc=doc, list_kind=lk, early=early, kind=kind, nn_null=(doc in (4, 10))))
    for lk in (0, 2):  # template 16: plain execution, resolvers raising synchronously at two levels
        out.append(dict(doc=16, list_kind=lk, early=False, kind=0, nn_null=False, bad_raises=True))
    return out


def obligations(tier):
    th = tier == "thorough"
    obs = [dict(fn="stop_points", cell=c, budget_s=1200 if th else 25, expect_confirm=th) for c in cells(tier)]
    for lk in (0, 1, 2):
        for early in (False, True):
            for doc in (10, 12):
                obs.append(dict(fn="blocked_deferred_resolver", cell=dict(list_kind=lk, early=early, doc=doc), budget_s=600 if th else 60))
    return obs


def corpus():
    for lk in (0, 1, 2):
        for early in (False, True):
            for doc in (10, 12):
                yield "blocked_deferred_resolver", dict(list_kind=lk, early=early, doc=doc), dict(b2=False, b4=True, lazy=False, c0=0, c1=0, c2=0)
                yield "blocked_deferred_resolver", dict(list_kind=lk, early=early, doc=doc), dict(b2=True, b4=False, lazy=True, c0=1, c1=0, c2=0)
    base = dict(f0=True, f1=True, b0=False, b1=False, b2=False, b3=False, b4=False, lazy=False, c0=0, c1=0, c2=0, c3=0, stop_after=1, abort_at=1, reason_kind=1)
    for c in cells("quick"):
        if c["doc"] == 16:
            yield "stop_points", c, dict(base, b0=True, b3=True)
            yield "stop_points", c, dict(base, b0=True, b3=True, b2=True, c0=1, c1=2)
        yield "stop_points", c, dict(base)
        yield "stop_points", c, dict(base, b0=True, b3=True, stop_after=0, abort_at=0, reason_kind=2)
        yield "stop_points", c, dict(base, b0=True, b1=True, lazy=True, stop_after=2, abort_at=3, reason_kind=0, c0=1)
