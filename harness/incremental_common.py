"""Shared machinery for C04 / C05 / C06: incremental execution on the deterministic loop,
reassembly of payloads as the incremental-delivery format prescribes, protocol validation."""
from __future__ import annotations

import asyncio
import copy

from vf.detloop import DetLoop, Hang, Scheduler

from graphql import ExecutionResult, build_schema, execute_sync, parse
from graphql.execution import ExecutionHooks, experimental_execute_incrementally

SDL = """
type Hero { id: ID name: String! slow: String slow2: String friends: [Hero] strictFriends: [Hero!] nn: String! best: Hero bad: String! crew: [Hero!] }
type Query { hero: Hero heroes: [Hero] strict: Hero! n: Int }
"""

# every @defer/@stream carries `if: $dK` so that the same operation with the directives
# disabled is the reference; labels encode nesting ("A.C" is nested inside "A")
DOCS = [
    # 0 nested defers + stream inside defer
    """query ($d0: Boolean = true, $d1: Boolean = true, $d2: Boolean = true, $d3: Boolean = true) {
      hero { name ... @defer(label: "A", if: $d0) { slow friends @stream(initialCount: 1, label: "A.S", if: $d1) { name } } }
      ... @defer(label: "B", if: $d2) { heroes { name ... @defer(label: "B.C", if: $d3) { slow } } } }""",
    # 1 overlapping fragments selecting the same fields at different defer depths
    """query ($d0: Boolean = true, $d1: Boolean = true, $d2: Boolean = true, $d3: Boolean = true) {
      hero { id ... @defer(label: "A", if: $d0) { name slow best { name } }
             ... @defer(label: "B", if: $d1) { name best { name slow2 ... @defer(label: "B.C", if: $d2) { slow friends { name } } } } } }""",
    # 2 defer inside streamed items, stream with initialCount 0
    """query ($d0: Boolean = true, $d1: Boolean = true, $d2: Boolean = true, $d3: Boolean = true) {
      heroes @stream(initialCount: 0, label: "S", if: $d0) { name ... @defer(label: "S.D", if: $d1) { slow } }
      hero { friends @stream(initialCount: 2, label: "T", if: $d2) { name slow2 } } }""",
    # 3 the same fragment spread first deferred then plain, and the reverse; equal labels on different paths
    """query ($d0: Boolean = true, $d1: Boolean = true, $d2: Boolean = true, $d3: Boolean = true) {
      hero { ...F @defer(label: "F", if: $d0) ...F best { ...F ...G @defer(label: "F", if: $d1) } }
      strict { ...G @defer(label: "G", if: $d2) } }
    fragment F on Hero { name slow } fragment G on Hero { slow2 id }""",
    # 4 errors: a deferred fragment with a non-null violation, a stream over non-null items with a null
    """query ($d0: Boolean = true, $d1: Boolean = true, $d2: Boolean = true, $d3: Boolean = true) {
      hero { name ... @defer(label: "A", if: $d0) { nn slow } strictFriends @stream(initialCount: 1, label: "S", if: $d1) { name } }
      ... @defer(label: "B", if: $d2) { strict { name nn } n } }""",
    # 5 one failing execution group shared by a root fragment and a not-yet-announced nested one
    """query ($d0: Boolean = true, $d1: Boolean = true, $d2: Boolean = true, $d3: Boolean = true) {
      ... @defer(label: "A", if: $d0) { n ... @defer(label: "A.C", if: $d1) { strict { bad } } }
      ... @defer(label: "B", if: $d2) { strict { bad } } }""",
    # 6 multi-dimensional sharing: stream and defer over the same list field
    """query ($d0: Boolean = true, $d1: Boolean = true, $d2: Boolean = true, $d3: Boolean = true) {
      hero { friends @stream(initialCount: 1, label: "S", if: $d0) { name } ... @defer(label: "A", if: $d1) { friends @stream(initialCount: 1, label: "S", if: $d0) { name slow } } } }""",
    # 7 a root-level fragment overlapping a deeper one; the deeper one may fail
    """query ($d0: Boolean = true, $d1: Boolean = true, $d2: Boolean = true, $d3: Boolean = true) {
      ... @defer(label: "B", if: $d0) { hero { name slow } }
      hero { id ... @defer(label: "A", if: $d1) { name nn } } }""",
    # 8 an execution group shared by a fragment and a deeper one nested in a still pending fragment
    """query ($d0: Boolean = true, $d1: Boolean = true, $d2: Boolean = true, $d3: Boolean = true) {
      ... @defer(label: "A", if: $d0) { hero { name } }
      ... @defer(label: "P", if: $d1) { n hero { ... @defer(label: "P.C", if: $d2) { name slow2 } } } }""",
    # 9 a fragment with a streamed field spread in two places, merged with another selection of the field
    """query ($d0: Boolean = true, $d1: Boolean = true, $d2: Boolean = true, $d3: Boolean = true) {
      hero { ...SF best { ...SF friends @stream(initialCount: 1, if: $d0) { id } } } }
    fragment SF on Hero { friends @stream(initialCount: 1, if: $d0) { name } }""",
    # 10 a deferred field merged into an object that the initial result nulls through a non-null error
    """query ($d0: Boolean = true, $d1: Boolean = true, $d2: Boolean = true, $d3: Boolean = true) {
      ... @defer(label: "A", if: $d0) { hero { name slow } n }
      hero { id nn } }""",
    # 11 a plain stream over a longer list
    """query ($d0: Boolean = true, $d1: Boolean = true, $d2: Boolean = true, $d3: Boolean = true) {
      hero { friends @stream(initialCount: 0, label: "S", if: $d0) { name } } }""",
    # 12 a fragment deferred inside an object that a non-null sibling field nulls
    """query ($d0: Boolean = true, $d1: Boolean = true, $d2: Boolean = true, $d3: Boolean = true) {
      hero { nn name ... @defer(label: "A", if: $d0) { slow slow2 } } n }""",
    # 13 below an outer defer: every list item declares a defer that contains a nested defer under a sub-object
    """query ($d0: Boolean = true, $d1: Boolean = true, $d2: Boolean = true, $d3: Boolean = true) {
      ... @defer(label: "O", if: $d0) { heroes { name ... @defer(label: "O.D", if: $d1) { slow best { name ... @defer(label: "O.D.E", if: $d2) { slow2 } } }
                                                    ... @defer(label: "O.D2", if: $d1) { slow id } } } }""",
    # 14 below an outer defer: an (awaitable) object field selected plainly and inside each item's deferred fragment
    """query ($d0: Boolean = true, $d1: Boolean = true, $d2: Boolean = true, $d3: Boolean = true) {
      ... @defer(label: "O", if: $d0) { heroes { best { name } ... @defer(label: "O.D", if: $d1) { best { slow id } slow2 } } } }""",
    # 15 a stream over non-null items whose second item fails as a whole (its non-null field is null, possibly asynchronously)
    """query ($d0: Boolean = true, $d1: Boolean = true, $d2: Boolean = true, $d3: Boolean = true) {
      hero { name crew @stream(initialCount: 1, label: "S", if: $d0) { name nn slow } } }""",
    # 16 no incremental delivery: a synchronously raising non-null field next to a pending awaitable sibling, at two nested levels
    #    (the work abandoned at the outer level abandons more work while it settles)
    """query ($d0: Boolean = true, $d1: Boolean = true, $d2: Boolean = true, $d3: Boolean = true) {
      heroes { slow name bad } n strict { slow2 bad } }""",
]
PARSED = [parse(d) for d in DOCS]
N_DIRECTIVES = [4, 3, 3, 3, 3, 3, 2, 2, 3, 1, 1, 1, 1, 3, 2, 1, 0]

ASYNCABLE = ["Hero.slow", "Hero.slow2", "Hero.name", "Query.heroes", "Hero.best", "Hero.nn", "Query.n", "Hero.bad"]


class Boom(Exception):
    pass


def make_root(nn_null: bool, bad_raises: bool):
    solo = {"id": "9", "name": "solo", "slow": "s-solo", "slow2": "s2-solo", "friends": [], "strictFriends": [], "nn": "x", "best": None, "bad": "ok"}
    han = {"id": "2", "name": "han", "slow": "s-han", "slow2": "s2-han", "friends": [solo, dict(solo, id="8", name="chewie")], "strictFriends": [], "nn": "x", "best": solo, "bad": Boom() if bad_raises else "ok"}
    leia = dict(han, id="3", name="leia", slow="s-leia")
    luke = {"id": "1", "name": "luke", "slow": "s-luke", "slow2": "s2-luke", "friends": [han, leia, han, solo], "strictFriends": [han, None if nn_null else leia, han],
            "nn": None if nn_null else "x", "best": han, "bad": Boom() if bad_raises else "ok",
            "crew": [han, dict(leia, nn=None), han, solo]}
    return {"hero": luke, "heroes": [luke, han], "strict": luke, "n": 1}


class SeparateIterable:
    """AsyncIterable whose __aiter__ returns a different object (the iterator)."""

    def __init__(self, gen, registry=None):
        self._gen = gen
        self._registry = registry

    def __aiter__(self):
        it = SeparateIterator(self._gen)
        if self._registry is not None:
            self._registry.append(it)
        return it


class SeparateIterator:
    """A hand-written async iterator: unlike an async generator it does not tolerate (hide) a
    second aclose(), so it counts them."""

    def __init__(self, gen):
        self._gen = gen
        self.aclose_calls = 0

    def __aiter__(self):
        return self

    async def __anext__(self):
        return await self._gen.__anext__()

    async def aclose(self):
        self.aclose_calls += 1
        await self._gen.aclose()


class Family:
    """A schema + document templates + the resolver positions that may be awaitable."""

    def __init__(self, sdl, docs, asyncable, types, list_fields):
        self.sdl = sdl
        self.docs = docs
        self.parsed = [parse(d) for d in docs]
        self.asyncable = asyncable
        self.types = types
        self.list_fields = list_fields


class World:
    """Resolvers for one run: sync or awaitable per position, optional async-generator lists."""

    def __init__(self, sched, bits, list_kind, family=None):
        self.family = family
        self.sched = sched
        self.bits = bits
        self.list_kind = list_kind  # 0 plain list, 1 async generator, 2 list of awaitables
        self.n = 0
        self.inflight = set()
        self.gens_started = 0
        self.gens_closed = 0
        self.iterators = []  # hand-written iterators handed out (list_kind 3)
        self.never = ()  # resolver positions whose awaitable never completes unless cancelled

    async def awaiter(self, label, fut):
        self.inflight.add(label)
        try:
            return await fut
        finally:
            self.inflight.discard(label)

    def install(self, schema):
        w = self
        fam = self.family
        asyncable = fam.asyncable if fam else ASYNCABLE
        list_fields = fam.list_fields if fam else ("friends", "heroes", "strictFriends", "crew")
        for tname in (fam.types if fam else ("Hero", "Query")):
            t = schema.get_type(tname)
            for fname, fdef in t.fields.items():
                def resolve(src, _info, tname=tname, fname=fname):
                    v = (src or {}).get(fname)
                    key = tname + "." + fname
                    is_async = w.sched is not None and key in asyncable and w.bits[asyncable.index(key)]
                    if isinstance(v, list) and w.sched is not None and w.list_kind in (1, 3) and fname in list_fields:
                        async def gen(items=v):
                            w.gens_started += 1
                            try:
                                for pos, it in enumerate(items):
                                    if getattr(w, "source_fail_at", None) == pos:
                                        raise Boom("source failed")
                                    w.n += 1
                                    yield await w.awaiter(key + "#" + str(w.n), w.sched.future(it, None, key + "[]"))
                            finally:
                                w.gens_closed += 1
                        if w.list_kind == 3:
                            return SeparateIterable(gen(), w.iterators)  # an AsyncIterable that is not its own iterator
                        return gen()
                    if isinstance(v, list) and w.sched is not None and w.list_kind == 2 and fname in list_fields:
                        out = []
                        for it in v:
                            w.n += 1
                            out.append(w.awaiter(key + "#" + str(w.n), w.sched.future(it, None, key + "[]")))
                        return out
                    if w.sched is not None and key in w.never:
                        w.n += 1
                        return w.awaiter(key + "#" + str(w.n), w.sched.loop.create_future())  # nobody will ever settle it
                    if isinstance(v, Boom):
                        if is_async:
                            w.n += 1
                            return w.awaiter(key + "#" + str(w.n), w.sched.future(None, v, key))
                        raise v
                    if is_async:
                        w.n += 1
                        return w.awaiter(key + "#" + str(w.n), w.sched.future(v, None, key))
                    return v
                fdef.resolve = resolve


PARSED_NP = [parse(d.replace(") {", ") @experimental_disableErrorPropagation {", 1)) for d in DOCS]


def reference(doc_i, root, n_dir, propagate=True):
    """The same operation with every @defer/@stream disabled (optionally also with error
    propagation disabled: the 'non-propagating reference' of the property)."""
    schema = build_schema(SDL)
    World(None, [False] * len(ASYNCABLE), 0).install(schema)
    variables = {"d" + str(k): False for k in range(4)}
    return execute_sync(schema, (PARSED if propagate else PARSED_NP)[doc_i], root, variable_values=variables)


class Delivery:
    """Everything the consumer saw."""

    def __init__(self):
        self.single = None
        self.initial = None
        self.payloads = []
        self.error = None
        self.hang = False
        self.hook_calls = 0
        self.hook_dirty = False
        self.leftover = 0  # resolver coroutines still in flight when the response was complete


def run_incremental(doc_i, root, flags, bits, list_kind, early, lazy, choices, stop_after=None, abort_at=None, abort_reason=None, source_fail_at=None, never=(), family=None, unwind=False):
    """flags: the `if` value of each directive.  Returns (Delivery, loop, sched, world).
    stop_after: aclose() the payload stream after that many subsequent payloads;
    abort_at: trigger the abort signal just before the abort_at-th settlement."""
    from graphql.pyutils import AbortController

    schema = build_schema(family.sdl if family else SDL)
    loop = DetLoop()
    sched = Scheduler(loop, choices)
    abort = None
    if abort_at is not None:
        controller = AbortController()
        abort = controller.signal

        def maybe_abort(s):
            if s.settled == abort_at and not abort.aborted:
                controller.abort(abort_reason)
        sched.before_settle = maybe_abort
    world = World(sched, bits, list_kind, family)
    world.source_fail_at = source_fail_at
    world.never = never
    world.install(schema)
    d = Delivery()

    def hook(info):
        d.hook_calls += 1
        # tracked work = what the execution started: resolver coroutines still in flight
        # (the consumer's own awaiting task is not work of the execution)
        if world.inflight:
            d.hook_dirty = True

    variables = {"d" + str(k): flags[k] for k in range(len(flags))}
    with loop:
        try:
            res, exc = sched.drive(experimental_execute_incrementally(
                schema, (family.parsed if family else PARSED)[doc_i], root, variable_values=variables, enable_early_execution=early,
                hooks=ExecutionHooks(async_work_finished=hook), abort_signal=abort))
            if exc is not None:
                d.error = exc
                d.unwound = None
                if unwind and hasattr(exc, "aborted_result"):
                    # the documented way to let an aborted execution finish unwinding
                    ures, uexc = sched.drive(exc.aborted_result)
                    d.unwound = "rejected" if uexc is not None else ("incremental" if hasattr(ures, "initial_result") else "result")
                    loop.run_until_idle()
                    d.leftover = len(world.inflight)
                    sched.drain()
                return d, loop, sched, world
            if isinstance(res, ExecutionResult):
                d.single = res
                loop.run_until_idle()
                d.leftover = len(world.inflight)
                sched.drain()
                return d, loop, sched, world
            d.initial = res.initial_result
            stream = res.subsequent_results
            while True:
                if stop_after is not None and len(d.payloads) >= stop_after:
                    r, exc = sched.drive(stream.aclose())
                    break
                if lazy:
                    sched.drain()
                r, exc = sched.drive(stream.__anext__())
                if exc is not None:
                    if not isinstance(exc, StopAsyncIteration):
                        d.error = exc
                    break
                d.payloads.append(r)
                if len(d.payloads) > 40:
                    d.error = RuntimeError("too many payloads")
                    break
            # the response is complete (or the consumer stopped): without any further external
            # event, nothing the execution started may still be in flight
            loop.run_until_idle()
            d.leftover = len(world.inflight)
            sched.drain()
        except Hang:
            d.hang = True
    return d, loop, sched, world


def _pending_tasks_except_current(self):
    cur = asyncio.current_task(self) if hasattr(asyncio, "current_task") else None
    return [t for t in self.tasks if not t.done() and t is not cur]


DetLoop.pending_tasks_except_current = _pending_tasks_except_current


# ---- reassembly + protocol ----------------------------------------------------------------------------
class ProtocolError(Exception):
    pass


def deep_merge(target: dict, data: dict):
    for k, v in data.items():
        if k in target and isinstance(target[k], dict) and isinstance(v, dict):
            deep_merge(target[k], v)
        elif k in target and isinstance(target[k], list) and isinstance(v, list) and len(target[k]) == len(v):
            for i, item in enumerate(v):
                if isinstance(target[k][i], dict) and isinstance(item, dict):
                    deep_merge(target[k][i], item)
                else:
                    target[k][i] = item
        else:
            target[k] = v


def walk(data, path):
    cur = data
    for seg in path:
        if isinstance(cur, dict):
            if seg not in cur:
                raise ProtocolError("path " + repr(path) + " does not exist")
            cur = cur[seg]
        elif isinstance(cur, list):
            if not isinstance(seg, int) or seg >= len(cur):
                raise ProtocolError("path " + repr(path) + " does not exist")
            cur = cur[seg]
        else:
            raise ProtocolError("path " + repr(path) + " runs through " + repr(cur))
    return cur


def _try_walk(data, path):
    try:
        return walk(data, path)
    except ProtocolError:
        return None


def reassemble(delivery: Delivery):
    """Apply the subsequent payloads to the initial one exactly as the format prescribes, checking
    the delivery protocol on the way.  -> (data, errors, completed_with_errors labels)"""
    init = delivery.initial.formatted
    data = copy.deepcopy(init["data"])
    errors = list(init.get("errors", []))
    pending = {}
    seen_ids = set()
    labels = {}
    failed = []
    if init.get("hasNext") is not True:
        raise ProtocolError("initial payload of an incremental response must have hasNext: true")

    def announce(entries):
        for p in entries:
            pid = p["id"]
            if pid in seen_ids:
                raise ProtocolError("id " + pid + " announced twice / reused")
            seen_ids.add(pid)
            pending[pid] = list(p["path"])
            labels[pid] = p.get("label")

    def check_announced(entries):
        """a payload is applied as a unit: what it announces must exist, and must not be nested
        in a fragment that is still pending, once the whole payload has been applied"""
        for p in entries:
            label = p.get("label")
            if label and "." in label:
                parent = label.rsplit(".", 1)[0]
                # (a stream stays pending while its items -- and fragments deferred inside
                # them -- are delivered; the clause is about enclosing deferred fragments)
                # (the enclosing fragment is the pending one with the parent label whose path is a
                # prefix of the nested one's: list items each carry their own instance of a label)
                enclosing = [q for q in pending if q != p["id"] and labels[q] == parent and list(p["path"])[:len(pending[q])] == pending[q]
                             and not isinstance(_try_walk(data, pending[q]), list)]
                if enclosing:
                    raise ProtocolError("nested " + label + " announced while enclosing " + parent + " is still pending")
            if data is not None and p["id"] in pending:
                walk(data, p["path"])  # must exist in the data assembled so far

    announce(init.get("pending", []))
    check_announced(init.get("pending", []))
    last = False
    for payload in delivery.payloads:
        f = payload.formatted
        if last:
            raise ProtocolError("payload after hasNext: false")
        if "hasNext" not in f:
            raise ProtocolError("payload without hasNext")
        announce(f.get("pending", []))
        for entry in f.get("incremental", []):
            pid = entry["id"]
            if pid not in pending:
                raise ProtocolError("incremental entry for id " + str(pid) + " that is not pending")
            target = walk(data, pending[pid] + list(entry.get("subPath", [])))
            if "items" in entry:
                if not isinstance(target, list):
                    raise ProtocolError("items delivered to a non-list")
                target.extend(copy.deepcopy(entry["items"]))
            else:
                if not isinstance(target, dict):
                    raise ProtocolError("data delivered to a non-object")
                deep_merge(target, copy.deepcopy(entry["data"]))
            errors.extend(entry.get("errors", []))
        for c in f.get("completed", []):
            pid = c["id"]
            if pid not in pending:
                raise ProtocolError("completed entry for id " + str(pid) + " that is not pending (never announced or completed twice)")
            del pending[pid]
            if c.get("errors"):
                failed.append(labels.get(pid))
                errors.extend(c["errors"])
        check_announced(f.get("pending", []))
        if f["hasNext"] is False:
            last = True
    if delivery.error is None and not delivery.hang:
        if not last:
            raise ProtocolError("stream ended without hasNext: false")
        if pending:
            raise ProtocolError("announced ids never completed: " + repr(sorted(pending)))
    return data, errors, failed


def refines(merged, ref, lossy: bool) -> bool:
    """merged is ref with some subtrees replaced by null and (if lossy) some keys / list tails withheld"""
    if merged is None:
        return True
    if isinstance(ref, dict):
        if not isinstance(merged, dict):
            return False
        for k, v in merged.items():
            if k not in ref or not refines(v, ref[k], lossy):
                return False
        if not lossy and len(merged) != len(ref):
            return False
        return True
    if isinstance(ref, list):
        if not isinstance(merged, list) or len(merged) > len(ref):
            return False
        if not lossy and len(merged) != len(ref):
            return False
        return all(refines(m, r, lossy) for m, r in zip(merged, ref))
    return merged == ref
