"""C19: schema transformations preserve meaning: extend equals build, sort only reorders, diff is sound."""
from __future__ import annotations

from vf import assume, concrete, fixlen, forked, verdict

from graphql import build_schema, extend_schema, lexicographic_sort_schema, parse, print_schema, validate_schema
from graphql.pyutils import natural_comparison_key
from graphql.utilities import find_schema_changes

from harness.schema_family import N_PARTS, build_family, sdl_for

BASE = """
"Root" type Query { a: Int b(x: Int = 1): String }
interface Node { id: ID! }
interface Named { name: String }
type User implements Node { id: ID! name: String }
type Other { o: Int }
union Thing = User
enum Color { RED GREEN }
input Flt { min: Int = 0 }
scalar Url
directive @meta(k: String, c: Color, f: Flt) repeatable on OBJECT | FIELD_DEFINITION | ENUM | INPUT_OBJECT | UNION | INTERFACE | SCALAR | SCHEMA
"""
# pieces an extension document can be made of (each valid against BASE on its own)
EXTS = [
    "extend type Query { c: Color }",
    "extend type User implements Named { age: Int }",
    "extend interface Node { created: Int } extend type User { created: Int }",
    "extend interface Named implements Node { id: ID! }",
    "extend union Thing = Other",
    "extend enum Color { BLUE }",
    "extend input Flt { max: Int = 9 }",
    "extend scalar Url @meta(k: \"u\")",
    "extend type Other @meta(k: \"o\") @meta",
    "extend schema { mutation: Mut } type Mut { m: Int }",
    "extend schema { subscription: Sub } type Sub { s: Int }",
    "extend schema @meta(k: \"s\")",
    "type Fresh implements Node { id: ID! other: Other } extend union Thing = Fresh",
    "directive @extra(on: Boolean) on FIELD",
    "extend enum Color @meta { PINK }",
    "extend input Flt @meta { words: [String!] }",
]
N_EXT = len(EXTS)


# further bases: root operation types present in different combinations (default root names, no schema block)
BASE_ROOTS = ["", "type Subscription { s: Int }", "type Mutation { m: Int }", "type Mutation { m: Int } type Subscription { s: Int }"]


def _extend_equals_build(i, j, swap, base_k=0) -> bool:
    a = BASE + BASE_ROOTS[base_k]
    pieces = [EXTS[i]] if i == j else [EXTS[i], EXTS[j]]
    if swap:
        pieces.reverse()
    b = " ".join(pieces)
    try:
        together = build_schema(a + "\n" + b)
    except Exception:
        return None if (i != j or base_k) else False  # two pieces may clash; a single piece is valid against BASE by construction
    if validate_schema(together):
        return None if (i != j or base_k) else False
    base = build_schema(a)
    if base_k:
        # the property quantifies over extension documents that are valid against the base: on a base that
        # already has a mutation / subscription root, a piece that (re)defines that root is not one of them
        from graphql.validation.validate import validate_sdl

        if validate_sdl(parse(b), base):
            return None
    before = print_schema(base)
    types_before = dict(base.type_map)
    extended = extend_schema(base, parse(b))
    if print_schema(base) != before or dict(base.type_map) != types_before or any(base.type_map[k] is not v for k, v in types_before.items()):
        return False  # the original schema object changed
    if print_schema(extended) != print_schema(together):
        return False
    if find_schema_changes(extended, together) or find_schema_changes(together, extended):
        return False
    return not validate_schema(extended)


def extend_equals_build(i: int, j: int, swap: bool, *, base: int = 0) -> bool:
    """extend_schema(build(A), B) == build(A + B) for every single extension piece and every pair
    (both orders); the original schema object is left unchanged."""
    i = forked(i, 0, N_EXT)
    j = forked(j, 0, N_EXT)
    assume(i <= j)
    try:
        r = concrete(_extend_equals_build, i, j, True if swap else False, base)
    except Exception:
        return verdict(False)
    assume(r is not None)
    return verdict(r)


def _moved_definition(k, order) -> bool:
    """a definition moved from the base document to the extension document, any definition order"""
    defs = [d.strip() for d in BASE.strip().split("\n") if d.strip()]
    moved = defs[k]
    if moved.startswith('"Root"') or moved.startswith("interface Node") or moved.startswith("directive"):
        return None
    rest = [d for n, d in enumerate(defs) if n != k]
    if order == 1:
        rest.reverse()
    elif order == 2:
        rest = rest[1::2] + rest[0::2]
    try:
        together = build_schema("\n".join(rest) + "\n" + moved)
        base = build_schema("\n".join(rest))
    except Exception:
        return None
    extended = extend_schema(base, parse(moved))
    return not find_schema_changes(extended, together) and not find_schema_changes(together, extended) and print_schema(extended) == print_schema(together)


def moved_definition(k: int, order: int) -> bool:
    k = forked(k, 0, 10)
    order = forked(order, 0, 3)
    try:
        r = concrete(_moved_definition, k, order)
    except Exception:
        return verdict(False)
    assume(r is not None)
    return verdict(r)


def _noop_and_sort(bits) -> bool:
    s = build_family(bits)
    if extend_schema(s, parse("directive @zz on FIELD")) is s:
        return False  # this one does add something
    if extend_schema(s, parse("{ query }")) is not s:
        return False  # a document without type-system definitions adds nothing: the original is returned
    if find_schema_changes(s, s):
        return False
    srt = lexicographic_sort_schema(s)
    if find_schema_changes(s, srt) or find_schema_changes(srt, s):
        return False
    p1 = print_schema(srt)
    if print_schema(lexicographic_sort_schema(srt)) != p1:
        return False
    if print_schema(s) != print_schema(build_family(bits)):
        return False  # sorting must not touch the original
    # really sorted: type names and field names in natural order
    names = [n for n in srt.type_map if not n.startswith("__")]
    if names != sorted(names, key=natural_comparison_key):
        return False
    for t in srt.type_map.values():
        f = getattr(t, "fields", None)
        if isinstance(f, dict) and not t.name.startswith("__") and list(f) != sorted(f, key=natural_comparison_key):
            return False
    return True


def noop_and_sort(b0: bool, b1: bool, b2: bool, b3: bool, b4: bool, b5: bool, b6: bool, b7: bool) -> bool:
    """Extending with a document that adds nothing returns the original; a schema compared with
    itself has no changes; sorting changes only ordering, is idempotent and really sorts."""
    bits = [1 if b else 0 for b in (b0, b1, b2, b3, b4, b5, b6, b7)]
    try:
        return verdict(concrete(_noop_and_sort, bits))
    except Exception:
        return verdict(False)


EDITS = [
    ("a: Int", "a: Float"), ("a: Int", "a: Int!"), ("b(x: Int = 1)", "b(x: Int = 2)"), ("b(x: Int = 1)", "b(x: Int = 1, y: Int)"),
    ("b(x: Int = 1)", "b(x: Int! = 1)"), ("b(x: Int = 1): String", "b: String"), ('"Root" type', '"Changed" type'), ("id: ID! name: String }", "id: ID! }"),
    ("type User implements Node", "type User implements Node & Named"), ("union Thing = User", "union Thing = User | Other"), ("enum Color { RED GREEN }", "enum Color { RED }"),
    ("enum Color { RED GREEN }", "enum Color { RED GREEN BLUE }"), ("enum Color { RED GREEN }", "enum Color { RED GREEN @deprecated }"), ("min: Int = 0", "min: Int = 1"),
    ("min: Int = 0", "min: Int"), ("input Flt { min: Int = 0 }", "input Flt { min: Int = 0 req: Int! }"), ("scalar Url", "scalar Url @specifiedBy(url: \"u\")"),
    ("repeatable on", "on"), ("on OBJECT |", "on"), ("@meta(k: String,", "@meta(k: String, z: Int,"), ("@meta(k: String,", "@meta(k: Int,"),
    ("type Other { o: Int }", "type Other { o: Int p: Int }"), ("type Other { o: Int }", ""), ("interface Named { name: String }", "interface Named { name: String! }"),
    ("type Other { o: Int }", "type Other { o: Int } type Added { x: Int }"),
]


def _single_edit(e, via) -> bool:
    old, new = EDITS[e]
    assert old in BASE
    s1 = build_schema(BASE)
    text2 = BASE.replace(old, new, 1)
    try:
        s2 = build_schema(text2)
    except Exception:
        return None
    if via == 1:
        s2 = lexicographic_sort_schema(s2)
    elif via == 2:
        s2 = build_schema(print_schema(s2))
    changes = find_schema_changes(s1, s2)
    if print_schema(lexicographic_sort_schema(s1)) == print_schema(lexicographic_sort_schema(s2)):
        return not changes
    # (the detector is not required to be complete: deprecations, input field defaults or
    # specifiedBy are legitimately not reported; what it reports must be real)
    # every reported change names something that is part of the textual difference
    p1, p2 = print_schema(lexicographic_sort_schema(s1)), print_schema(lexicographic_sort_schema(s2))
    diff_tokens = set(p1.lower().replace("(", " ").replace(")", " ").replace(":", " ").replace(".", " ").split()) ^ set(p2.lower().replace("(", " ").replace(")", " ").replace(":", " ").replace(".", " ").split())
    coarse = {w for w in (old + " " + new).lower().replace("(", " ").replace(")", " ").replace(":", " ").replace("{", " ").replace("}", " ").split()}
    for c in changes:
        words = set(c.description.lower().replace("'", " ").replace(".", " ").replace("(", " ").replace(")", " ").replace(":", " ").replace("@", " @").split())
        if not (words & (diff_tokens | coarse)):
            return False
    return True


def single_edits(e: int, via: int) -> bool:
    """For 25 single edits: no change is reported when the (sorted) printed forms are equal, and every
    reported change refers to something inside the textual difference -- also when the second
    schema went through sort or print/build (distinct type objects)."""
    e = forked(e, 0, len(EDITS))
    via = forked(via, 0, 3)
    try:
        r = concrete(_single_edit, e, via)
    except Exception:
        return verdict(False)
    assume(r is not None)
    return verdict(r)


def natural_order_laws(a: str, b: str, c: str) -> bool:
    """natural_comparison_key is a total preorder consistent with itself (digits vs letters is a solver case)."""
    assume(len(a) <= 2 and len(b) <= 2 and len(c) <= 2)
    for s in (a, b, c):
        for ch in s:
            assume(("0" <= ch <= "9") or ("a" <= ch <= "c") or ch == "_")
    ka, kb, kc = natural_comparison_key(a), natural_comparison_key(b), natural_comparison_key(c)
    try:
        if ka <= kb and kb <= kc and not ka <= kc:
            return verdict(False)
        if not (ka <= kb or kb <= ka):
            return verdict(False)
        return verdict((ka == kb) == (not ka < kb and not kb < ka))
    except Exception:
        return verdict(False)


BOUNDS = {
    "quick": [
        "extend = build: 4 base SDLs (query only / + subscription / + mutation / + both roots) + every single piece and every pair (both orders) of 16 extension pieces (fields, interfaces, union members, enum values, input fields, directive applications, operation types, new types, new directives); one of 7 definitions moved from base to extension under 3 definition orders",
        "no-op extension, self-comparison, sort (no changes, idempotent, really sorted, original untouched) on the 256 family schemas",
        "change detector: 25 single edits x 3 routes for the second schema (direct, sorted, printed and rebuilt)",
        "natural_comparison_key total-order laws on triples of strings <= 2 over {0-9, a-c, _}",
    ],
    "thorough": ["same, exhaustive"],
}
ASSUMPTIONS = [
    "extension documents outside the listed pieces are outside; pairs that are not valid together are skipped",
    "the 'corresponds to a textual difference' clause is checked on word level against the printed forms",
]


def obligations(tier):
    th = tier == "thorough"
    B = 1800 if th else 150
    return [
        dict(fn="extend_equals_build", cell={}, budget_s=B),
        dict(fn="extend_equals_build", cell=dict(base=1), budget_s=B),
        dict(fn="extend_equals_build", cell=dict(base=2), budget_s=B),
        dict(fn="extend_equals_build", cell=dict(base=3), budget_s=B),
        dict(fn="moved_definition", cell={}, budget_s=B),
        dict(fn="noop_and_sort", cell={}, budget_s=B),
        dict(fn="single_edits", cell={}, budget_s=B),
        dict(fn="natural_order_laws", cell={}, budget_s=B, expect_confirm=th),
    ]


def corpus():
    for i in range(N_EXT):
        yield "extend_equals_build", {}, dict(i=i, j=i, swap=False)
    for base in (1, 2, 3):
        for i in (0, 5, 12):
            yield "extend_equals_build", dict(base=base), dict(i=i, j=i, swap=False)
    yield "extend_equals_build", {}, dict(i=1, j=3, swap=True)
    yield "extend_equals_build", {}, dict(i=9, j=10, swap=False)
    for k in range(10):
        yield "moved_definition", {}, dict(k=k, order=1)
    yield "noop_and_sort", {}, dict(b0=True, b1=True, b2=True, b3=True, b4=True, b5=True, b6=True, b7=True)
    yield "noop_and_sort", {}, dict(b0=False, b1=False, b2=False, b3=False, b4=False, b5=False, b6=False, b7=False)
    for e in range(len(EDITS)):
        for via in range(3):
            yield "single_edits", {}, dict(e=e, via=via)
    yield "natural_order_laws", {}, dict(a="a1", b="a10", c="a2")
