"""A family of valid schemas for C17 / C18 / C19: one rich SDL base whose optional parts are
switched by bits, plus programmatic variants (adversarial description strings, defaults given as
Python values)."""
from __future__ import annotations

from graphql import (
    GraphQLArgument, GraphQLDirective, GraphQLEnumType, GraphQLEnumValue, GraphQLField, GraphQLInputField, GraphQLInputObjectType,
    GraphQLInt, GraphQLInterfaceType, GraphQLList, GraphQLNonNull, GraphQLObjectType, GraphQLScalarType, GraphQLSchema, GraphQLString,
    GraphQLUnionType, build_schema,
)
from graphql.language import DirectiveLocation
from graphql.type import GraphQLDefaultInput, specified_directives

PARTS = [
    # 0 custom root names + all three roots
    ("schema { query: Q }\n", 'schema { query: Q mutation: M subscription: S }\ntype M { set(v: Int = 1): Q }\ntype S { tick: Int }\n'),
    # 1 interface hierarchy
    ("", "interface Node { id: ID! }\ninterface Named implements Node { id: ID! name: String }\ntype Person implements Named & Node { id: ID! name: String age: Int }\nextendQ person: Person named: Named\n"),
    # 2 union
    ("", "union Thing = Q | Alt\ntype Alt { x: Int }\nextendQ thing: Thing\n"),
    # 3 OneOf input + recursive input with defaults
    ("", 'input One @oneOf { a: Int b: String }\ninput Rec { v: Int = 3 next: Rec list: [Rec!] e: Color = RED }\nextendQ one(o: One, r: Rec = {next: {v: 2}}): Int\n'),
    # 4 repeatable custom directive with deprecated argument, several locations
    ("", 'directive @meta(key: String! = "k", old: Int @deprecated(reason: "gone"), tag: Color = RED) repeatable on FIELD_DEFINITION | OBJECT | ENUM_VALUE | ARGUMENT_DEFINITION\n'),
    # 5 custom scalar with specifiedBy
    ("", 'scalar Url @specifiedBy(url: "https://example.com/url")\nextendQ home: Url\n'),
    # 6 deprecations on field / argument / enum value / input field
    ("", 'extendQ old: Int @deprecated arg(a: Int @deprecated(reason: "no"), b: Int = 2): Int\ninput Dep { x: Int @deprecated y: Int }\nextendQ dep(d: Dep): Int\n'),
    # 7 a non-object type named like a default root
    ("", "enum Mutation { A }\nextendQ m: Mutation\n"),
]
N_PARTS = len(PARTS)


def sdl_for(bits) -> str:
    q_fields = ['"""\n  The answer\n  """\n  f(x: Int = 1, c: Color = GREEN, l: [Int!] = [1, 2]): Int', "color: Color"]
    body = ['"""\nRoot\n"""']
    rest = []
    for i, (off, on) in enumerate(PARTS):
        text = on if bits[i] else off
        for line in text.splitlines():
            if line.startswith("extendQ "):
                q_fields.append(line[len("extendQ "):])
            elif line:
                rest.append(line)
    import re

    out = "\n".join(rest) + '\n"""Root"""\ntype Q {\n  ' + "\n  ".join(q_fields) + '\n}\n"A color" enum Color { "red" RED GREEN @deprecated(reason: "old") }\n'
    if len(bits) > N_PARTS and bits[N_PARTS] and not bits[0]:
        # the query root carries its default name (whether the schema block may be omitted
        # when printing then depends on the other types' names)
        out = re.sub(r"\bQ\b", "Query", out)
    return out


def build_family(bits):
    return build_schema(sdl_for(bits))


def D(v):
    return GraphQLDefaultInput(value=v)


def programmatic(desc, reason=None, default_kind=0):
    """A schema assembled programmatically: `desc` is used as description of a type, a field, an
    argument, an enum value, an input field and a directive; defaults are Python values."""
    color = GraphQLEnumType("Color", {"RED": GraphQLEnumValue(1, description=desc, deprecation_reason=reason), "GREEN": GraphQLEnumValue(2)}, description=desc)
    chain = GraphQLInputObjectType("Chain", lambda: {
        "limit": GraphQLInputField(GraphQLInt, default=D(5), description=desc),
        "next": GraphQLInputField(chain, default=D([None, {"next": None}, {"limit": 7, "next": None}, {"next": {"limit": None, "next": None}}][default_kind]), deprecation_reason=reason),
    }, description=desc)
    scalar = GraphQLScalarType("Url", description=desc, specified_by_url="https://example.com/u")
    q = GraphQLObjectType("Query", lambda: {
        "f": GraphQLField(GraphQLList(GraphQLNonNull(GraphQLInt)), {
            "a": GraphQLArgument(GraphQLInt, default=D([1, -(2**31), 0][default_kind % 3]), description=desc),
            "c": GraphQLArgument(chain, default=D({"limit": None})),
            "l": GraphQLArgument(GraphQLList(GraphQLString), default=D(["x", None]), deprecation_reason=reason),
            "e": GraphQLArgument(color, default=D("GREEN")),
        }, description=desc, deprecation_reason=reason),
        "u": GraphQLField(scalar),
    }, description=desc)
    d = GraphQLDirective("meta", [DirectiveLocation.FIELD, DirectiveLocation.QUERY], {"k": GraphQLArgument(GraphQLString, default=D("v"), description=desc)}, is_repeatable=True, description=desc)
    return GraphQLSchema(q, types=[color, chain, scalar], directives=[*specified_directives, d], description=desc)
