"""C05 unit level: StreamItemQueue with a symbolic producer script, capacity, eagerness and
settlement order: the concatenation of the batches is the pushed sequence, in order, without gaps
or repeats; a failure is raised only after the earlier settled items were delivered."""
from __future__ import annotations

import asyncio

from vf import assume, concrete, forked, note, verdict
from vf.detloop import DetLoop, Hang, Scheduler

from graphql.execution.incremental.stream_item_queue import StreamItemQueue
from graphql.execution.incremental.work_queue import WorkResult


class Boom(Exception):
    pass


def _run(script, capacity, eager, choices):
    """script: list of steps: 0 push settled item, 1 push pending future (settled later, in a
    symbolic order), 2 push a future that fails, 3 producer raises"""
    loop = DetLoop()
    sched = Scheduler(loop, choices)
    aborted = []
    pushed = []
    fail_at = None

    async def produce(queue):
        nonlocal fail_at
        for i, step in enumerate(script):
            if step == 0:
                pushed.append(i)
                await queue.push(WorkResult(i))
            elif step == 1:
                pushed.append(i)
                await queue.push(sched.future(WorkResult(i), None, "item" + str(i)))
            elif step == 2:
                fail_at = len(pushed)
                await queue.push(sched.future(None, Boom("item"), "bad" + str(i)))
                return
            else:
                fail_at = len(pushed)
                raise Boom("producer")

    got = []
    outcome = {"error": None}
    with loop:
        queue = StreamItemQueue(produce, lambda reason: aborted.append(reason), eager=eager, capacity=capacity)

        async def consume():
            try:
                async for batch in queue.batches():
                    if not batch:
                        outcome["error"] = "empty batch"
                    got.extend(r.value for r in batch)
            except Boom as e:
                outcome["error"] = e
        try:
            _r, exc = sched.drive(consume())
            sched.drain()
        except Hang:
            return False
        if exc is not None:
            if isinstance(exc, asyncio.CancelledError) and fail_at is not None:
                note("stream failure surfaced to the consumer as CancelledError")
            return False
    if outcome["error"] == "empty batch":
        return False
    if fail_at is None:
        # normal end: everything pushed was delivered, in order, and the queue knows it stopped
        return outcome["error"] is None and got == pushed and queue.is_stopped() and not loop.pending_tasks()
    # failure: raised, and only after the items pushed before it were delivered in order
    if not isinstance(outcome["error"], Boom):
        return False
    if got != pushed[:len(got)] or len(got) > fail_at:
        return False
    return not queue.is_stopped() and not loop.pending_tasks()


def producer_scripts(s0: int, s1: int, s2: int, s3: int, c0: int, c1: int, c2: int, *, steps: int, capacity: int, eager: bool) -> bool:
    script = [forked(s, 0, 4) for s in (s0, s1, s2, s3)][:steps]
    try:
        return verdict(concrete(_run, script, capacity, eager, [c0, c1, c2]))
    except Exception:
        return verdict(False)


BOUNDS = {"quick": ["StreamItemQueue: producer scripts of 1..4 steps over {push settled, push pending future, push failing future, raise} x capacity 1..3 x eager/lazy x settlement order of the pending futures (3 symbolic decisions)"],
          "thorough": ["same"]}
ASSUMPTIONS = ["a failing item future aborts the rest of the script (the producer is cancelled by the queue)"]


def obligations(tier):
    obs = []
    for steps in (1, 2, 3, 4):
        for capacity in (1, 2, 3):
            for eager in (False, True):
                obs.append(dict(fn="producer_scripts", cell=dict(steps=steps, capacity=capacity, eager=eager), budget_s=600 if tier == "thorough" else 60))
    return obs


def corpus():
    yield "producer_scripts", dict(steps=4, capacity=1, eager=True), dict(s0=1, s1=1, s2=0, s3=1, c0=1, c1=0, c2=0)
    yield "producer_scripts", dict(steps=3, capacity=2, eager=False), dict(s0=0, s1=1, s2=3, s3=0, c0=0, c1=0, c2=0)
    yield "producer_scripts", dict(steps=3, capacity=3, eager=True), dict(s0=1, s1=2, s2=0, s3=0, c0=1, c1=0, c2=0)
