"""C05: the incremental payload stream obeys the delivery protocol (end-to-end obligations;
the validator lives in harness.incremental_common.reassemble)."""
from __future__ import annotations

from harness.C04_incremental import ASSUMPTIONS, BOUNDS, cells, protocol  # noqa: F401


def obligations(tier):
    th = tier == "thorough"
    B = 1800 if th else 50
    return [dict(fn="protocol", cell=c, budget_s=B, expect_confirm=th) for c in cells(tier)]


def corpus():
    from harness.C04_incremental import corpus as c4

    for fn, cell, args in c4():
        if fn == "protocol":
            yield fn, cell, args
