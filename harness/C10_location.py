"""C10 harnesses: reported locations are the true line/column."""
from __future__ import annotations

from vf import assume, verdict, forked

from graphql.language import Source
from graphql.language.location import get_location


def spec_location(body: str, pos: int):
    """Spec: line = 1 + #line terminators (CRLF | LF | CR) before pos; column from last."""
    line = 1
    last_start = 0
    i = 0
    while i < pos:
        c = body[i]
        if c == "\r":
            if i + 1 < len(body) and body[i + 1] == "\n":
                i += 1
            line += 1
            last_start = i + 1
        elif c == "\n":
            line += 1
            last_start = i + 1
        i += 1
    return line, pos + 1 - last_start


def get_location_matches_spec(body: str, pos: int, *, maxlen: int) -> bool:
    assume(len(body) <= maxlen)
    assume(0 <= pos <= len(body))
    # an offset that splits a CR LF pair is not a position any token or error can have
    assume(not (0 < pos < len(body) and body[pos - 1] == "\r" and body[pos] == "\n"))
    try:
        loc = get_location(Source(body), pos)
        got = (loc.line, loc.column)
    except Exception:
        return verdict(False)
    return verdict(got == spec_location(body, pos))


BOUNDS = {
    "quick": ["Source.get_location: body <= 3 code points over all of Unicode, every offset 0..len"],
    "thorough": ["Source.get_location: body <= 4 code points over all of Unicode, every offset 0..len"],
}
ASSUMPTIONS = ["offsets that split a CR LF pair are excluded (no token or error starts there)"]


def obligations(tier):
    n = 3 if tier == "quick" else 4
    return [dict(fn="get_location_matches_spec", cell={"maxlen": n}, budget_s=120 if tier == "quick" else 900)]


def corpus():
    # pinned by tests/language/test_source.py / test_location.py style expectations
    yield "get_location_matches_spec", {"maxlen": 99}, {"body": "a\nb\r\nc\rd", "pos": 8}
    yield "get_location_matches_spec", {"maxlen": 99}, {"body": "{\n  field\n}", "pos": 4}
