"""C10 harnesses: reported locations are the true line/column."""
from __future__ import annotations

from vf import assume, fixlen, verdict, forked
from vf import stubs
from vf.oracles.spec_location import spec_location

from graphql.language import Source
from graphql.language.location import get_location


def get_location_matches_spec(body: str, pos: int, *, maxlen: int) -> bool:
    assume(len(body) <= maxlen)
    assume(0 <= pos <= len(body))
    # an offset that splits a CR LF pair is not a position any token or error can have
    assume(not (0 < pos < len(body) and body[pos - 1] == "\r" and body[pos] == "\n"))
    try:
        loc = get_location(Source(body), pos)
        got = (loc.line, loc.column)
    except Exception:
        return verdict(False)
    return verdict(got == spec_location(body, pos))


from graphql.error import GraphQLError, GraphQLSyntaxError
from graphql.language import Lexer, SourceLocation, TokenKind, parse, print_source_location

from harness.lexer_common import first_char_class


def spec_lines(body: str):
    """Lines as the specification delimits them (CR LF | LF | CR)."""
    out = []
    cur = ""
    i = 0
    while i < len(body):
        c = body[i]
        if c == "\r":
            if i + 1 < len(body) and body[i + 1] == "\n":
                i += 1
            out.append(cur)
            cur = ""
        elif c == "\n":
            out.append(cur)
            cur = ""
        else:
            cur += c
        i += 1
    out.append(cur)
    return out


def _walk_tokens(body: str):
    """(tokens, error) using the lexer's own line bookkeeping (read_next_token chain)."""
    lx = Lexer(Source(body))
    toks = []
    pos = 0
    try:
        while True:
            t = lx.read_next_token(pos)
            toks.append(t)
            if t.kind == TokenKind.EOF:
                return toks, None
            pos = t.end
    except GraphQLSyntaxError as e:
        return toks, e


def token_line_column(s: str, *, length: int, cls: int) -> bool:
    """Every token's line/column and every syntax error's location equal the spec's."""
    stubs.fast_syntax_error()
    assume(len(s) == length)
    if length:
        assume(first_char_class(s[0]) == cls)
    try:
        toks, err = _walk_tokens(s)
    except Exception:
        return verdict(False)
    for t in toks:
        if (t.line, t.column) != spec_location(s, t.start):
            return verdict(False)
    if err is not None:
        if not err.positions or not err.locations:
            return verdict(False)
        loc = err.locations[0]
        if (loc.line, loc.column) != spec_location(s, err.positions[0]):
            return verdict(False)
    return verdict(True)


def block_string_bookkeeping(a: str, b: str, *, alen: int, blen: int) -> bool:
    """Line terminators inside a block string and after it: following tokens/errors are located
    correctly (the lexer adjusts line and line_start when it leaves the block string)."""
    stubs.fast_syntax_error()
    assume(len(a) == alen and len(b) == blen)
    a = fixlen(a, alen)
    b = fixlen(b, blen)
    for ch in a:
        assume(ch != '"' and ch != "\\" and not ("\ud800" <= ch <= "\udfff"))
    for ch in b:
        assume(ch in " \n\r\t,")
    body = '{ f(x: """' + a + '"""' + b + "y ?"
    try:
        toks, err = _walk_tokens(body)
    except Exception:
        return verdict(False)
    if err is None or len(toks) < 6:
        return verdict(False)
    for t in toks:
        if (t.line, t.column) != spec_location(body, t.start):
            return verdict(False)
    loc = err.locations[0]
    return verdict((loc.line, loc.column) == spec_location(body, err.positions[0]))


def render_location(body: str, pos: int, ol: int, oc: int, *, length: int) -> bool:
    """print_source_location never fails, prints name:line:column with the location offset
    applied (column shifted on line 1 only) and excerpts the named line with a caret."""
    assume(len(body) == length)
    assume(0 <= pos <= len(body))
    assume(not (0 < pos < len(body) and body[pos - 1] == "\r" and body[pos] == "\n"))
    ol = forked(ol, 1, 4)
    oc = forked(oc, 1, 4)
    try:
        src = Source(body, "n", SourceLocation(ol, oc))
        loc = src.get_location(pos)
        out = print_source_location(src, loc)
    except Exception:
        return verdict(False)
    line, col = spec_location(body, pos)
    line_num = line + ol - 1
    col_num = col + (oc - 1 if line == 1 else 0)
    rows = out.split("\n")
    if rows[0] != "n:" + str(line_num) + ":" + str(col_num):
        return verdict(False)
    expected = spec_lines(body)[line - 1]
    if line == 1:
        expected = " " * (oc - 1) + expected
    want = str(line_num) + " |" + ((" " + expected) if expected else "")
    caret = "| " + " " * (col_num - 1) + "^"
    for k in range(1, len(rows) - 1):
        if rows[k].lstrip(" ") == want and rows[k + 1].lstrip(" ") == caret:
            return verdict(True)
    return verdict(False)


def render_long_line(c: str, m: int, col: int) -> bool:
    """The 'minified document' branch (> 120 columns): never fails for any column."""
    assume(len(c) == 1)
    c = c[0]
    assume(c != "\n" and c != "\r")
    m = forked(m, 0, 5)
    n = [119, 120, 121, 161, 241][m]
    body = "a" * n + c
    assume(0 <= col <= len(body))
    try:
        src = Source(body)
        out = print_source_location(src, src.get_location(col))
    except Exception:
        return verdict(False)
    return verdict(out.split("\n")[0] == "GraphQL request:1:" + str(col + 1) and "^" in out)


def error_rendering(s: str, *, length: int, cls: int) -> bool:
    """str(), .formatted and .locations of real syntax errors never fail and name the spec location."""
    assume(len(s) == length)
    if length:
        assume(first_char_class(s[0]) == cls)
    try:
        parse(s)
        return verdict(True)
    except GraphQLSyntaxError as e:
        err = e
    except Exception:
        return verdict(False)
    try:
        text = str(err)
        f = err.formatted
        locs = err.locations
    except Exception:
        return verdict(False)
    line, col = spec_location(s, err.positions[0])
    if f.get("locations") != [{"line": line, "column": col}]:
        return verdict(False)
    if (locs[0].line, locs[0].column) != (line, col):
        return verdict(False)
    return verdict(("GraphQL request:" + str(line) + ":" + str(col)) in text)


ERR_DOCS = ["{ a\n  b }", "query Q {\r\n  int(x: $u)\r  zz\n}", "{ nn { x } }\n"]


def validation_error_locations(p: int, t: int, *, doc: int) -> bool:
    """Validation / execution errors on documents whose line terminator at a symbolic
    position is replaced by another terminator class keep spec-conform locations."""
    from graphql import graphql_sync
    from harness.C01_total import SCHEMA

    text = ERR_DOCS[doc]
    p = forked(p, 0, len(text))
    assume(text[p] in "\n\r ")
    t = forked(t, 0, 5)
    rep = ["\n", "\r", "\r\n", " ", "\u2028"][t]
    body = text[:p] + rep + text[p + 1 :]
    try:
        r = graphql_sync(SCHEMA, body)
        for e in r.errors or []:
            str(e)
            e.formatted
            if e.nodes:
                for node, loc in zip([n for n in e.nodes if n.loc], e.locations or []):
                    if (loc.line, loc.column) != spec_location(body, node.loc.start):
                        return verdict(False)
    except Exception:
        return verdict(False)
    return verdict(True)


BOUNDS = {
    "quick": [
        "Source.get_location: every body <= 3 code points over all of Unicode, every offset 0..len",
        "token line/column + syntax error location: every string of exactly 0..2 code points (one cell per first-char class)",
        "block string bookkeeping: template '{ f(x: \"\"\"' + a + '\"\"\"' + b + 'y ?' with a of exactly 0..2 arbitrary scalar chars, b of 0..1 ignored chars",
        "print_source_location: every body of exactly 0..2 code points, every offset, location offsets (line, column) in [1,3]^2; > 120 column branch at lengths 120..242 with any last char and any column",
        "str()/formatted/locations of real syntax errors on every string of exactly 0..2 code points",
        "validation/execution error locations: 3 documents x every line-terminator position x 5 replacement terminators",
    ],
    "thorough": ["as quick with get_location <= 4, token line/column <= 3, block string a <= 3, render <= 3"],
}
ASSUMPTIONS = [
    "offsets that split a CR LF pair are excluded (no token or error starts there)",
    "location offsets beyond (3,3) are outside the rendering claim (the arithmetic is linear in the offset)",
    "token/bookkeeping harnesses replace the syntax error *description text* by a constant; the rendering harnesses use the real class",
]


def obligations(tier):
    th = tier == "thorough"
    B = 900 if th else 120
    obs = [dict(fn="get_location_matches_spec", cell={"maxlen": 4 if th else 3}, budget_s=B)]
    for n in range(0, (3 if th else 2) + 1):
        for cls in range(6 if n else 1):
            obs.append(dict(fn="token_line_column", cell=dict(length=n, cls=cls), budget_s=B))
            obs.append(dict(fn="error_rendering", cell=dict(length=n, cls=cls), budget_s=B))
        obs.append(dict(fn="render_location", cell=dict(length=n), budget_s=B))
    for alen in range(0, (3 if th else 2) + 1):
        for blen in (0, 1):
            obs.append(dict(fn="block_string_bookkeeping", cell=dict(alen=alen, blen=blen), budget_s=B))
    obs.append(dict(fn="render_long_line", cell={}, budget_s=B))
    for d in range(len(ERR_DOCS)):
        obs.append(dict(fn="validation_error_locations", cell=dict(doc=d), budget_s=B))
    return obs


def corpus():
    yield "get_location_matches_spec", {"maxlen": 99}, {"body": "a\nb\r\nc\rd", "pos": 8}
    yield "get_location_matches_spec", {"maxlen": 99}, {"body": "{\n  field\n}", "pos": 4}
    yield "token_line_column", dict(length=5, cls=5), dict(s="{\n a?")
    yield "block_string_bookkeeping", dict(alen=2, blen=1), dict(a="\r\n", b="\n")
    yield "render_location", dict(length=5), dict(body="a\n b}", pos=4, ol=2, oc=3)
    yield "render_location", dict(length=3), dict(body="a\n\n", pos=3, ol=1, oc=1)
    yield "render_long_line", {}, dict(c="?", m=2, col=121)
    yield "error_rendering", dict(length=3, cls=5), dict(s="{\n?")
    for d in range(len(ERR_DOCS)):
        yield "validation_error_locations", dict(doc=d), dict(p=ERR_DOCS[d].index("\n"), t=2)
