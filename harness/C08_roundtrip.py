"""C08: print . parse round trip, string values preserved character for character."""
from __future__ import annotations

from vf import assume, fixlen, forked, verdict
from vf import stubs
from vf.oracles.spec_lexer import block_string_value

from graphql.error import GraphQLSyntaxError
from graphql.language import Lexer, Source, TokenKind, parse, parse_value, print_ast
from graphql.language.ast import (
    ArgumentNode, DocumentNode, FieldDefinitionNode, FieldNode, NamedTypeNode, NameNode, ObjectTypeDefinitionNode,
    OperationDefinitionNode, OperationType, SelectionSetNode, StringValueNode,
)
from graphql.language.block_string import is_printable_as_block_string, print_block_string
from graphql.language.print_string import print_string

from harness.lexer_common import no_surrogates

stubs.fast_syntax_error()


def lex_one(text: str):
    """-> (kind value, value, end) of the first token, or None on syntax error."""
    try:
        t = Lexer(Source(text)).read_next_token(0)
    except GraphQLSyntaxError:
        return None
    return (t.kind.value, t.value, t.end)


def str_class(c: str) -> int:
    """Cells for string contents: 0 blank, 1 LF, 2 quote/backslash, 3 other control (< 0x20 / 0x7f-0x9f), 4 rest."""
    if c == " " or c == "\t":
        return 0
    if c == "\n":
        return 1
    if c == '"' or c == "\\":
        return 2
    if c < " " or ("\x7f" <= c <= "\x9f"):
        return 3
    return 4


def lexable_block_value(v: str) -> bool:
    """v is a value the lexer can produce for a block string: scalar values only, no CR (lines
    are joined with LF) and already in BlockStringValue normal form."""
    for c in v:
        if c == "\r" or "\ud800" <= c <= "\udfff":
            return False
    return block_string_value(v) == v


PREFIXES = ["", "S\n\n ", "a\n", "S\n\n  i\n"]


def block_value_roundtrip(v: str, *, length: int, c0: int, c1: int = -1, prefix: int = 0) -> bool:
    """lex(print_block_string(v)).value == v (also minimized), and printing is a fixed point.
    With prefix > 0 the value is a concrete multi-line head (blank line, indented continuation)
    followed by the symbolic tail."""
    assume(len(v) == length)
    v = fixlen(v, length)
    if length >= 1:
        assume(str_class(v[0]) == c0)
    if c1 >= 0:
        assume(str_class(v[1]) == c1)
    v = PREFIXES[prefix] + v
    assume(lexable_block_value(v))
    try:
        for minimize in (False, True):
            p = print_block_string(v, minimize)
            t = lex_one(p)
            if t is None or t[0] != "BlockString" or t[2] != len(p) or t[1] != v:
                return verdict(False)
            if print_block_string(t[1], minimize) != p:
                return verdict(False)
    except Exception:
        return verdict(False)
    return verdict(True)


def block_raw_roundtrip(raw: str, *, length: int, c0: int) -> bool:
    """Any raw block string text that lexes: its value survives print -> lex, and the lexed value
    equals the spec's BlockStringValue(raw) (pins the lexer side independently of the printer)."""
    assume(len(raw) == length)
    raw = fixlen(raw, length)
    if length >= 1:
        assume(str_class(raw[0]) == c0)
    assume(no_surrogates(raw))
    src = '"""' + raw + '"""'
    try:
        t = lex_one(src)
        if t is None or t[0] != "BlockString" or t[2] != len(src):
            assume(False)  # raw contains a terminator/escape making this not one whole block string
        v = t[1]
        p = print_block_string(v)
        t2 = lex_one(p)
        if t2 is None or t2[1] != v:
            return verdict(False)
        if print_block_string(t2[1]) != p:
            return verdict(False)
        pm = print_block_string(v, True)
        t3 = lex_one(pm)
        if t3 is None or t3[1] != v:
            return verdict(False)
    except Exception:
        return verdict(False)
    return verdict(True)


def quoted_roundtrip(v: str, *, length: int, c0: int) -> bool:
    """lex(print_string(v)).value == v for every string of scalar values; lone surrogates are
    rejected by the lexer rather than mangled."""
    assume(len(v) == length)
    v = fixlen(v, length)
    if length >= 1:
        assume(str_class(v[0]) == c0)
    try:
        p = print_string(v)
        t = lex_one(p)
        if not no_surrogates(v):
            # unpaired surrogates have no representation in source text
            return verdict(t is None or t[1] == v)
        if t is None or t[0] != "String" or t[2] != len(p) or t[1] != v:
            return verdict(False)
        if print_string(t[1]) != p:
            return verdict(False)
    except Exception:
        return verdict(False)
    return verdict(True)


def _wrap_field(v: str, block: bool, depth: int) -> DocumentNode:
    node = FieldNode(name=NameNode(value="leaf"), arguments=(ArgumentNode(name=NameNode(value="x"), value=StringValueNode(value=v, block=block)),))
    for k in range(depth - 1):
        node = FieldNode(name=NameNode(value="f" + str(k)), selection_set=SelectionSetNode(selections=(node,)))
    op = OperationDefinitionNode(operation=OperationType.QUERY, selection_set=SelectionSetNode(selections=(node,)))
    return DocumentNode(definitions=(op,))


def _described_type(v: str, block: bool) -> DocumentNode:
    fld = FieldDefinitionNode(description=StringValueNode(value=v, block=block), name=NameNode(value="f"), type=NamedTypeNode(name=NameNode(value="Int")))
    typ = ObjectTypeDefinitionNode(description=StringValueNode(value=v, block=block), name=NameNode(value="T"), fields=(fld,))
    return DocumentNode(definitions=(typ,))


def string_in_context(v: str, block: bool, depth: int, *, length: int, c0: int, shape: int) -> bool:
    """Programmatically built tree with an arbitrary string value (argument at nesting depth
    1..3, or descriptions of a type and its field): parse(print(ast)) == ast, print idempotent."""
    assume(len(v) == length)
    v = fixlen(v, length)
    if length >= 1:
        assume(str_class(v[0]) == c0)
    assume(no_surrogates(v))
    if block:
        assume(lexable_block_value(v))
    depth = forked(depth, 1, 4)
    try:
        ast = _wrap_field(v, bool(block), depth) if shape == 0 else _described_type(v, bool(block))
        text = print_ast(ast)
        back = parse(text, no_location=True)
        if back != ast:
            return verdict(False)
        if print_ast(back) != text:
            return verdict(False)
    except Exception:
        return verdict(False)
    return verdict(True)


# templates with one symbolic hole each; <N> name, <I> int, <F> float, <S> string content
HOLE_TEMPLATES = [
    ("query <N>($<N>: [<N>!]! = [<I>] @<N>) @<N>(<N>: $<N>) { <N>: <N>(<N>: {<N>: <N>}) ...<N> ... on <N> @<N> { <N> } }", "N"),
    ("fragment <N> on <N> { <N> } subscription { <N> } mutation <N> { <N> }", "N"),
    ('"<S>" query { <N> } "<S>" query ($<N>: Int) { <N> } "<S>" mutation { <N> } "<S>" fragment <N> on <N> { <N> } "<S>" query <N> { <N> }', "NS"),
    ('{ f(a: <I>, b: [<I>, -<I>], c: {k: <I>}) }', "I"),
    ('{ f(a: <F>, b: [<F>]) }', "F"),
    ('{ f(a: "<S>", b: ["<S>"], c: {k: "<S>"}) @d(r: "<S>") }', "S"),
    ('"<S>" schema @<N> { query: <N> } "<S>" scalar <N> @<N>(<N>: "<S>") extend scalar <N> @<N>', "NS"),
    ('type <N> implements <N> & <N> @<N> { "<S>" <N>("<S>" <N>: <N> = "<S>" @<N>): [<N>!]! @<N> } extend type <N> implements <N>', "NS"),
    ('interface <N> implements <N> { <N>: <N> } union <N> @<N> = <N> | <N> extend union <N> = | <N>', "N"),
    ('enum <N> @<N> { "<S>" <N> @<N> <N> } input <N> { <N>: <N> = <I> } extend enum <N> { <N> } extend input <N> @<N>', "NSI"),
    ('"<S>" directive @<N>("<S>" <N>: <N> = <I>) repeatable on FIELD | QUERY extend schema { mutation: <N> }', "NSI"),
]


def _hole_ok(kind: str, h: str) -> bool:
    if kind == "N":
        if len(h) < 1:
            return False
        c = h[0]
        if not (("a" <= c <= "z") or ("A" <= c <= "Z") or c == "_"):
            return False
        for c in h[1:]:
            if not (("a" <= c <= "z") or ("A" <= c <= "Z") or ("0" <= c <= "9") or c == "_"):
                return False
        return h not in ("on", "true", "false", "null")
    if kind == "I":
        if len(h) < 1:
            return False
        for c in h:
            if not ("0" <= c <= "9"):
                return False
        return len(h) == 1 or h[0] != "0"
    if kind == "F":
        # d . d   |  d e d   | d . d E - d  (three shapes chosen by the length)
        for c in h:
            if not ("0" <= c <= "9"):
                return False
        return len(h) >= 2 and (h[0] != "0" or True)
    if kind == "S":
        for c in h:
            if "\ud800" <= c <= "\udfff":
                return False
        return True
    return False


def _fill(template: str, kind: str, h: str) -> str:
    if kind == "F":
        h = h[0] + "." + h[1:] if len(h) == 2 else h[0] + "." + h[1] + "e-" + h[2:]
    elif kind == "S":
        h = print_string(h)[1:-1]
    return template.replace("<" + kind + ">", h)


DEFAULTS = {"N": "x", "I": "7", "F": "15", "S": "s"}


def template_roundtrip(h: str, *, tpl: int, kind: str, length: int) -> bool:
    """Snippets covering every printer method with a symbolic token text in every hole of one
    kind: parse(print(parse(s))) == parse(s) and the reprint equals the first print."""
    assume(len(h) == length)
    h = fixlen(h, length)
    assume(_hole_ok(kind, h))
    template, kinds = HOLE_TEMPLATES[tpl]
    text = template
    for k in "NIFS":
        text = _fill(text, k, h if k == kind else DEFAULTS[k])
    try:
        a = parse(text, no_location=True, experimental_fragment_arguments=True, experimental_directives_on_directive_definitions=True)
        p1 = print_ast(a)
        b = parse(p1, no_location=True, experimental_fragment_arguments=True, experimental_directives_on_directive_definitions=True)
        if a != b:
            return verdict(False)
        return verdict(print_ast(b) == p1)
    except Exception:
        return verdict(False)


CONCRETE_DOCS = [
    "/repo/tests/fixtures/kitchen_sink.graphql",
    "/repo/tests/fixtures/schema_kitchen_sink.graphql",
]
EXTRA_SNIPPETS = [
    '"About" query { a } """block""" query { b }',
    "fragment F($a: Int = 1 @d) on T { f(x: $a) ...G(y: 2) }",
    "directive @a @b(x: 1) on FIELD extend directive @a @c",
    "{ f(aaaaaaaaaaaaaaaaaaaaaaaaaaaaaaaaaaaaaaa: 1, bbbbbbbbbbbbbbbbbbbbbbbbbbbbbbbbbbbbbbbbbbbbbbbb: 2, ccccccccccc: 3) }",
    "query ($a: Int) { a } { b }",
    '"""d""" query Q("v" $v: Int) { a } "f" fragment F on T { a }',
]


def concrete_document(*, which: int) -> bool:
    """Repo fixtures + experimental syntaxes, concretely (not a solver obligation by itself; it
    anchors the template family to the repo's own kitchen-sink documents)."""
    if which < len(CONCRETE_DOCS):
        text = open(CONCRETE_DOCS[which]).read()
    else:
        text = EXTRA_SNIPPETS[which - len(CONCRETE_DOCS)]
    kw = dict(no_location=True, experimental_fragment_arguments=True, experimental_directives_on_directive_definitions=True)
    a = parse(text, **kw)
    p1 = print_ast(a)
    b = parse(p1, **kw)
    return verdict(a == b and print_ast(b) == p1)


BOUNDS = {
    "quick": [
        "block string values: every lexable value of exactly 0..3 code points over all scalar values (cells by class of first [and second] char), plain and minimized printing",
        "block string raw text: every raw content of exactly 0..2 code points that lexes as one block string",
        "quoted strings: every string of exactly 0..2 code points (incl. lone surrogates -> must be rejected, not mangled)",
        "string in context: values of exactly 0..2 code points as block/quoted argument at selection depth 1..3 and as type/field descriptions, trees built programmatically",
        "10 snippet templates covering every printer method with a symbolic Name (<= 2 chars) / Int (<= 2 digits) / Float / String (<= 1 char) token in every hole",
    ],
    "thorough": ["as quick with block values <= 4, raw <= 3, quoted <= 3, context <= 3, Name holes <= 3"],
}
ASSUMPTIONS = [
    "block=True trees are claimed only for values the lexer can produce (no CR, no lone surrogate, BlockStringValue normal form); other values have no block string representation",
    "GraphQLSyntaxError description text is stubbed in symbolic runs",
    "string contents longer than the stated bounds and documents outside the template family are outside the claim",
]


def obligations(tier):
    th = tier == "thorough"
    B = 900 if th else 120
    obs = []
    for n in range(0, (4 if th else 3) + 1):
        for c0 in range(5 if n else 1):
            if n >= 3:
                for c1 in range(5):
                    obs.append(dict(fn="block_value_roundtrip", cell=dict(length=n, c0=c0, c1=c1), budget_s=B))
            else:
                obs.append(dict(fn="block_value_roundtrip", cell=dict(length=n, c0=c0), budget_s=B))
    for prefix in (1, 2, 3):
        for n in range(0, (3 if th else 2) + 1):
            for c0 in range(5 if n else 1):
                obs.append(dict(fn="block_value_roundtrip", cell=dict(length=n, c0=c0, prefix=prefix), budget_s=B))
    for n in range(0, (3 if th else 2) + 1):
        for c0 in range(5 if n else 1):
            obs.append(dict(fn="block_raw_roundtrip", cell=dict(length=n, c0=c0), budget_s=B))
            obs.append(dict(fn="quoted_roundtrip", cell=dict(length=n, c0=c0), budget_s=B))
            for shape in (0, 1):
                obs.append(dict(fn="string_in_context", cell=dict(length=n, c0=c0, shape=shape), budget_s=B))
    for t, (_tpl, kinds) in enumerate(HOLE_TEMPLATES):
        for k in kinds:
            maxlen = {"N": 3 if th else 2, "I": 3 if th else 2, "F": 3, "S": 2 if th else 1}[k]
            for n in range(2 if k == "F" else (0 if k == "S" else 1), maxlen + 1):
                obs.append(dict(fn="template_roundtrip", cell=dict(tpl=t, kind=k, length=n), budget_s=B))
    return obs


def corpus():
    for w in range(len(CONCRETE_DOCS) + len(EXTRA_SNIPPETS)):
        yield "concrete_document", dict(which=w), {}
    yield "block_value_roundtrip", dict(length=3, c0=0), dict(v=" \x1dx")
    yield "block_value_roundtrip", dict(length=2, c0=4, prefix=1), dict(v="xy")
    yield "block_value_roundtrip", dict(length=1, c0=4, prefix=3), dict(v="z")
    yield "block_value_roundtrip", dict(length=4, c0=4), dict(v='a\nb"')
    yield "block_raw_roundtrip", dict(length=6, c0=1), dict(raw="\n  a\n ")
    yield "quoted_roundtrip", dict(length=4, c0=4), dict(v='a"\\ ')
    yield "string_in_context", dict(length=3, c0=4, shape=0), dict(v="a\nb", block=True, depth=3)
    yield "string_in_context", dict(length=3, c0=4, shape=1), dict(v="a\nb", block=True, depth=1)
    yield "template_roundtrip", dict(tpl=0, kind="N", length=2), dict(h="ab")
    yield "template_roundtrip", dict(tpl=3, kind="F", length=3), dict(h="123")
    yield "template_roundtrip", dict(tpl=6, kind="S", length=2), dict(h='"\n')
