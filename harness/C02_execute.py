"""C02: execution computes exactly what the specification's algorithm computes."""
from __future__ import annotations

from typing import Optional

from vf import assume, forked, verdict
from vf import stubs
from vf.oracles.spec_execute import spec_execute

import graphql.type.scalars as scalars
import graphql.type.definition as definition
import graphql.execution.executor as executor
import graphql.execution.values as values
from graphql import build_schema, execute_sync, parse

stubs.const_inspect(scalars, definition, executor, values)

SDL = """
interface Node { id: ID! name: String label(prefix: String = "n"): String }
type User implements Node { id: ID! name: String age: Int friends: [User!] best: User
  posts(first: Int = 2, tag: Tag = A, flt: Flt = {min: 1}): [Post] nn: Int! grid: [[Int]]
  label(prefix: String = "u", upper: Boolean = false): String }
type Post implements Node { id: ID! name: String author: User! score: Float label(prefix: String = "p"): String }
union Item = User | Post
enum Tag { A B }
input Flt { min: Int = 0 max: Int words: [String!] }
type Query { me: User node(id: ID!): Node items: [Item] user(id: ID = "1"): User
  echo(x: Int, s: String = "d", l: [Int!], f: Flt, t: Tag): String strict: User! sum(nums: [Int!] = [1], f: Flt = {words: ["d"]}): Int }
type Mutation { inc(by: Int = 1): Int }
"""

DOCS = [
    # 0: skip/include on every kind of selection, merging of aliased fields from three selections
    """query Q($s1: Boolean!, $s2: Boolean!, $i1: Boolean!, $i2: Boolean!, $n: Int, $t: Tag = B) {
      me @include(if: $i1) {
        id
        name @skip(if: $s1)
        n2: name
        ...UF @skip(if: $s2)
        ... on User @include(if: $i2) { age best { id n2: name } }
        ...UF
        friends { id ...UF }
        nn
      }
      echo(x: $n, l: [1, 2], f: {max: 3}, t: $t)
    }
    fragment UF on User { name age best { age } }""",
    # 1: abstract types, lists, nested non-null, arguments with defaults and variables
    """query Q($s1: Boolean!, $s2: Boolean!, $i1: Boolean!, $i2: Boolean!, $n: Int, $t: Tag = B, $m: Int = 1) {
      node(id: "p1") { id ... on Post @skip(if: $s1) { score author { nn } } ... on User { age } ... on Node @include(if: $i1) { name } }
      items { __typename ... on Node { id } ... on User @skip(if: $s2) { age } ... on Post { author { id nn } } }
      me { posts(first: $n, tag: $t) { id score author { nn } } grid }
      user { id }
      e2: echo(x: 5, s: null, l: [4], f: {min: $n, words: ["a"]})
      strict @include(if: $i2) { nn }
      it2: items { ... @include(if: $i1) { ... on User { age } ... on Post { score } } }
      e3: echo(l: [2, $m], f: {words: ["w"], max: $m})
    }""",
    # 2: the same response key selected by several field nodes (merged), completed for different runtime
    #    types within one list; one interface field node executed for types that declare its arguments differently
    """query Q($s1: Boolean!, $s2: Boolean!, $i1: Boolean!, $i2: Boolean!, $n: Int, $t: Tag = B, $p: String) {
      items { __typename ... on Node { label } }
      items { ... on User @skip(if: $s1) { age l2: label(prefix: $p) } ... on Post { score l2: label(prefix: $p) } }
      ...QF @include(if: $i2)
      node(id: "p1") { id label(prefix: "x") }
      node(id: "p1") { ... on Post @skip(if: $s2) { score } ... on User { age } }
      me { friends { id } best { id label } }
      me { friends { ... on User { age } ... on Node @include(if: $i1) { name label } } }
      echo(x: $n, t: $t)
    }
    fragment QF on Query { items { ... on Node { id } ... on Post @include(if: $i1) { author { id label } } } }""",
]
PARSED = [parse(d) for d in DOCS]
from graphql import validate as _validate
for _d in PARSED:
    assert _validate(build_schema(SDL), _d) == [], _validate(build_schema(SDL), _d)


class Boom(Exception):
    pass


def make_world(name, age, nn, score, best_none, friends_shape, raise_idx):
    u2 = {"__typename": "User", "id": "2", "name": "two", "age": age, "friends": None, "best": None, "nn": 7, "grid": None, "posts": []}
    p1 = {"__typename": "Post", "id": "p1", "name": name, "score": score, "author": u2}
    u1 = {
        "__typename": "User", "id": "1", "name": name, "age": age, "nn": nn,
        "friends": [None, [], [u2], [u2, u2]][friends_shape], "best": None if best_none else u2,
        "grid": [[1, None], None, [age]], "posts": [p1, None],
    }
    p1b = dict(p1, author=u1)
    root = {"me": u1, "node": p1b, "items": [u1, p1b, None], "user": u2, "strict": u1, "echo": "e", "inc": 1, "sum": 3}
    raising = [None, ("User", "name"), ("User", "nn"), ("Post", "author"), ("Query", "me"), ("User", "best"), ("Query", "echo"), ("Post", "score")][raise_idx]
    return root, raising


def resolvers_for(schema, raising, log):
    """{(type, field): fn(source, args)} + installs equivalent resolvers on the schema"""
    table = {}
    for tname, t in schema.type_map.items():
        if tname.startswith("__") or not hasattr(t, "fields") or not hasattr(t, "interfaces"):
            continue
        if hasattr(t, "resolve_type"):
            t.resolve_type = lambda v, *_a: v.get("__typename") if isinstance(v, dict) else None
            continue
        for fname, fdef in t.fields.items():
            def fn(src, args, tname=tname, fname=fname):
                if raising == (tname, fname):
                    raise Boom()
                if fname == "echo":
                    return "e"
                return (src or {}).get(fname)
            table[(tname, fname)] = fn

            def real(src, _info, fn=fn, tname=tname, fname=fname, **args):
                log.append((tname, fname, tuple(sorted(args.items(), key=lambda kv: kv[0]))))
                return fn(src, args)
            fdef.resolve = real
    for t in schema.type_map.values():
        if hasattr(t, "resolve_type") and not hasattr(t, "is_type_of"):
            t.resolve_type = lambda v, *_a: v.get("__typename") if isinstance(v, dict) else None
    return table


def same_ordered(a, b) -> bool:
    if isinstance(a, dict) and isinstance(b, dict):
        if list(a.keys()) != list(b.keys()):
            return False
        return all(same_ordered(a[k], b[k]) for k in a)
    if isinstance(a, list) and isinstance(b, list):
        return len(a) == len(b) and all(same_ordered(x, y) for x, y in zip(a, b))
    if isinstance(a, float) and isinstance(b, float):
        return a == b or (a != a and b != b)
    return type(a) is type(b) and a == b or (a is None and b is None)


def run_both(schema, doc, variables, root, raising):
    log = []
    table = resolvers_for(schema, raising, log)
    real = execute_sync(schema, doc, root, variable_values=variables)
    real_calls = list(log)
    spec = spec_execute(schema, doc, variables, table, root)
    return real, real_calls, spec


def agrees(real, real_calls, spec) -> bool:
    if spec[0] == "request-error":
        return real.data is None and bool(real.errors)
    _ok, data, errors, calls = spec
    if not same_ordered(real.data, data):
        return False
    real_paths = sorted((tuple(e.path) for e in (real.errors or [])), key=repr)
    if real_paths != errors:
        return False
    return real_calls == calls


SCHEMA = build_schema(SDL)


def spec_agreement(s1: bool, s2: bool, i1: bool, i2: bool, n: Optional[int], name_none: bool, age: Optional[int], nn: Optional[int],
                   best_none: bool, m_kind: int, *, doc: int, friends_shape: int, raise_idx: int, mask: int = -1, score: float = 1.5) -> bool:
    """Response (keys, order, values, nulls), error paths and resolver arguments equal the spec's."""
    if mask >= 0:  # cell: the four directive variables are fixed by the mask
        assume(s1 == bool(mask & 1) and s2 == bool(mask & 2) and i1 == bool(mask & 4) and i2 == bool(mask & 8))
        s1, s2, i1, i2 = bool(mask & 1), bool(mask & 2), bool(mask & 4), bool(mask & 8)
    name = None if name_none else "x"
    variables = {"s1": s1, "s2": s2, "i1": i1, "i2": i2}
    if n is not None:
        variables["n"] = n
    m_kind = forked(m_kind, 0, 3)  # $m: absent (default applies) / explicit null / a value
    if m_kind == 1:
        variables["m"] = None
    elif m_kind == 2:
        variables["m"] = 5
    root, raising = make_world(name, age, nn, score, best_none, friends_shape, raise_idx)
    try:
        real, real_calls, spec = run_both(SCHEMA, PARSED[doc], variables, root, raising)
    except Exception:
        return verdict(False)
    return verdict(agrees(real, real_calls, spec))


def history_independence(s1: bool, i1: bool, age: Optional[int], s1b: bool, i1b: bool, ageb: Optional[int], *, doc: int) -> bool:
    """Executing the same request again after a different request on the same schema and
    document objects gives the same response (memoised defaults, cached sub-selections)."""
    v1 = {"s1": s1, "s2": False, "i1": i1, "i2": True}
    v2 = {"s1": s1b, "s2": True, "i1": i1b, "i2": False, "n": 1}
    w1 = make_world("a", age, 1, 1.5, False, 2, 0)
    w2 = make_world("b", ageb, None, 2.5, True, 3, 1)
    try:
        a, ac, _ = run_both(SCHEMA, PARSED[doc], v1, w1[0], w1[1])
        run_both(SCHEMA, PARSED[doc], v2, w2[0], w2[1])
        c, cc, spec = run_both(SCHEMA, PARSED[doc], v1, w1[0], w1[1])
    except Exception:
        return verdict(False)
    return verdict(a.formatted == c.formatted and ac == cc and agrees(c, cc, spec))


BOUNDS = {
    "quick": [
        "3 request templates over one schema (objects, interface, union, [T!], [[Int]], T! at several depths, arguments with defaults, input objects, enum): 4 symbolic @skip/@include variables (16 selection shapes each), symbolic variable $n (absent or any int), data leaves name (None or a string), age / nn (None or any int), best None/object; cells: friends list shape (None, [], 1, 2 items) x which resolver raises (none or one of 7)",
        "history: the same request executed before and after a different request on the same schema/document objects",
    ],
    "thorough": ["same cells with a larger budget (all cells expected to exhaust)"],
}
ASSUMPTIONS = [
    "pyutils.inspect replaced by a constant; error messages are not compared (paths, nulled positions and resolver arguments are)",
    "custom scalars, middleware, awaitable resolvers (C03) and schemas/documents outside the two templates are outside the claim",
    "the reference implementation of input coercion covers the types used by the templates",
]


def obligations(tier):
    th = tier == "thorough"
    obs = []
    for doc in range(len(DOCS)):
        for fs in (range(4) if th else (2,)):
            for ri in (range(8) if th else (0, 2)):
                for mask in range(16):
                    obs.append(dict(fn="spec_agreement", cell=dict(doc=doc, friends_shape=fs, raise_idx=ri, mask=mask), budget_s=900 if th else 100))
        if not th:
            for fs, ri in ((0, 3), (3, 5), (1, 7)):
                obs.append(dict(fn="spec_agreement", cell=dict(doc=doc, friends_shape=fs, raise_idx=ri), budget_s=60, expect_confirm=False))
        obs.append(dict(fn="history_independence", cell=dict(doc=doc), budget_s=900 if th else 120))
    return obs


def corpus():
    base = dict(s1=False, s2=False, i1=True, i2=True, n=3, name_none=False, age=30, nn=1, best_none=False, m_kind=0)
    for doc in range(len(DOCS)):
        for ri in range(8):
            yield "spec_agreement", dict(doc=doc, friends_shape=2, raise_idx=ri), dict(base)
        yield "spec_agreement", dict(doc=doc, friends_shape=3, raise_idx=0), dict(base, s1=True, s2=True, i1=False, i2=False, n=None, name_none=True, age=None, nn=None, best_none=True)
        yield "spec_agreement", dict(doc=doc, friends_shape=0, raise_idx=0, score=float("nan")), dict(base, age=2**31)
        yield "spec_agreement", dict(doc=doc, friends_shape=2, raise_idx=0), dict(base, m_kind=1)
        yield "spec_agreement", dict(doc=doc, friends_shape=2, raise_idx=0), dict(base, m_kind=2, i1=False)
        yield "history_independence", dict(doc=doc), dict(s1=True, i1=True, age=1, s1b=False, i1b=False, ageb=None)
