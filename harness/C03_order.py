"""C03: the response does not depend on when resolvers complete; mutations are serial."""
from __future__ import annotations

import asyncio

from vf import assume, concrete, forked, verdict
from vf import stubs
from vf.detloop import DetLoop, Hang, Scheduler

import graphql.type.scalars as scalars
import graphql.type.definition as definition
import graphql.execution.executor as executor
from graphql import build_schema, execute, execute_sync, parse

stubs.const_inspect(scalars, definition, executor)

SDL = """
interface Node { id: ID! name: String }
type User implements Node { id: ID! name: String age: Int friends: [User!] best: User nn: Int! tags: [String] }
type Post implements Node { id: ID! name: String author: User! score: Int }
union Item = User | Post
type Query { me: User node: Node items: [Item] strict: User! feed: [Post] }
type Mutation { a: User b: User c: User }
"""

DOCS = [
    "{ me { id name best { name nn } friends { name nn } } node { id ... on Post { author { nn name } } } }",
    "{ items { __typename ... on Node { id name } ... on User { best { nn } } } strict { nn name } me { tags } }",
    "{ feed { id author { name nn } score } me { name friends { best { name } } } }",
]
PARSED = [parse(d) for d in DOCS]
MUTATION = parse("mutation { a { name best { name } friends { name } } b { name nn } c { name } }")

# resolver positions that may answer with an awaitable (bit i of the symbolic mask)
ASYNCABLE = [("Query", "me"), ("User", "name"), ("User", "best"), ("Post", "author"), ("User", "nn"), ("Query", "items"), ("Query", "feed")]
N_ASYNC = len(ASYNCABLE)


class Boom(Exception):
    pass


def world(nn_null: bool, best_null: bool):
    u2 = {"_t": "User", "id": "2", "name": "two", "age": 2, "friends": None, "best": None, "nn": None if nn_null else 7, "tags": None}
    u1 = {"_t": "User", "id": "1", "name": "one", "age": 1, "friends": [u2, u2], "best": None if best_null else u2, "nn": 1, "tags": ["t", None]}
    p1 = {"_t": "Post", "id": "p1", "name": "post", "author": u2, "score": 5}
    p2 = {"_t": "Post", "id": "p2", "name": "post2", "author": u1, "score": 6}
    return {"me": u1, "node": p1, "items": [u1, p1, u2], "strict": u1, "feed": [p1, None, p2], "a": u1, "b": u2, "c": u1}


class Run:
    """One execution of a document with a given async mask / failing resolver / scheduler."""

    def __init__(self, amask_bits, raise_idx, sched, item_async, type_async, use_is_type_of, aiter_feed):
        self.bits = amask_bits
        self.raising = [None, ("User", "name"), ("User", "nn"), ("Post", "author"), ("User", "best")][raise_idx]
        self.sched = sched
        self.item_async = item_async
        self.type_async = type_async
        self.use_is_type_of = use_is_type_of
        self.aiter_feed = aiter_feed
        self.inflight = set()
        self.serial_violation = False
        self.n = 0

    def wrap(self, key, produce):
        """value or awaitable of produce() depending on the mask"""
        i = ASYNCABLE.index(key) if key in ASYNCABLE else -1
        if self.sched is None or i < 0 or not self.bits[i]:
            return produce()
        self.n += 1
        label = key[0] + "." + key[1] + "#" + str(self.n)
        try:
            v = produce()
            fut = self.sched.future(v, None, label)
        except Boom as e:
            fut = self.sched.future(None, e, label)
        return self.awaiter(label, fut)

    async def awaiter(self, label, fut):
        self.inflight.add(label)
        try:
            return await fut
        finally:
            self.inflight.discard(label)

    def install(self, schema):
        run = self
        for tname, t in schema.type_map.items():
            if tname.startswith("__") or not hasattr(t, "fields") or not hasattr(t, "interfaces"):
                continue
            if hasattr(t, "resolve_type"):  # interface
                self._abstract(t)
                continue
            if run.use_is_type_of:
                def is_type_of(v, _info, tname=tname):
                    ok = isinstance(v, dict) and v.get("_t") == tname
                    if run.sched is not None and ((run.type_async & 1 and tname == "User") or (run.type_async & 2 and tname == "Post")):
                        run.n += 1
                        return run.awaiter("is_type_of#" + str(run.n), run.sched.future(ok, None, "is_type_of"))
                    return ok
                t.is_type_of = is_type_of
            else:
                t.is_type_of = None
            for fname, fdef in t.fields.items():
                def resolve(src, _info, tname=tname, fname=fname):
                    if tname == "Mutation":
                        # serial execution: nothing started by an earlier root field may still run
                        # (an awaitable that was handed back but never started, because a sibling
                        # failed synchronously, is not work in progress)
                        if run.inflight:
                            run.serial_violation = True

                    def produce():
                        if run.raising == (tname, fname):
                            raise Boom()
                        v = (src or {}).get(fname)
                        if run.sched is not None and run.item_async and fname in ("friends", "items") and isinstance(v, list):
                            out = []
                            for it in v:
                                run.n += 1
                                out.append(run.awaiter("item#" + str(run.n), run.sched.future(it, None, "item")))
                            return out
                        if run.sched is not None and run.item_async and not run.aiter_feed and fname == "feed" and isinstance(v, list):
                            out = []
                            for it in v:
                                run.n += 1
                                out.append(run.awaiter("item#" + str(run.n), run.sched.future(it, None, "item")))
                            return out
                        if run.sched is not None and run.aiter_feed and fname == "feed" and isinstance(v, list):
                            async def gen(items=v):
                                for it in items:
                                    run.n += 1
                                    yield await run.awaiter("feed#" + str(run.n), run.sched.future(it, None, "feeditem"))
                            return gen()
                        return v

                    key = (tname, fname)
                    if tname == "Mutation":
                        key = ("Query", "me") if run.bits[0] else key
                    return run.wrap(key, produce)
                fdef.resolve = resolve
        for t in schema.type_map.values():
            if hasattr(t, "resolve_type") and not hasattr(t, "interfaces"):  # union
                self._abstract(t)

    def _abstract(self, t):
        run = self
        if run.use_is_type_of:
            t.resolve_type = None
            return

        def resolve_type(v, *_a):
            name = v.get("_t") if isinstance(v, dict) else None
            if run.sched is not None and run.type_async:
                run.n += 1
                return run.awaiter("resolve_type#" + str(run.n), run.sched.future(name, None, "resolve_type"))
            return name
        t.resolve_type = resolve_type


def execute_with(doc, root, amask_bits, raise_idx, choices, item_async, type_async, use_is_type_of, aiter_feed):
    schema = build_schema(SDL)
    loop = DetLoop()
    sched = Scheduler(loop, choices)
    run = Run(amask_bits, raise_idx, sched, item_async, type_async, use_is_type_of, aiter_feed)
    run.install(schema)
    with loop:
        result, exc = sched.drive(execute(schema, doc, root))
        sched.drain()
    return result, exc, run, loop, sched


def execute_plain(doc, root, raise_idx, use_is_type_of):
    schema = build_schema(SDL)
    run = Run([False] * N_ASYNC, raise_idx, None, False, False, use_is_type_of, False)
    run.install(schema)
    return execute_sync(schema, doc, root)


def error_paths(r):
    """The set of positions nulled by errors: for every error, the place where its null lands in
    the response after non-null propagation (errors below an already nulled ancestor -- which a
    cancelled sibling may or may not get to report -- land on that ancestor)."""
    out = set()
    for e in r.errors or []:
        cur = r.data
        landing = ()
        if cur is not None:
            for seg in e.path:
                if cur is None:
                    break
                try:
                    cur = cur[seg]
                except (KeyError, IndexError, TypeError):
                    cur = None
                landing = landing + (seg,)
                if cur is None:
                    break
        out.add(landing)
    return sorted(out, key=repr)


def well_formed(r) -> bool:
    """every error path ends at or below a null in data; data is null only if an error reached the root"""
    if r.data is None:
        return bool(r.errors)
    for e in r.errors or []:
        cur = r.data
        hit_null = False
        for seg in e.path:
            try:
                cur = cur[seg]
            except (KeyError, IndexError, TypeError):
                return False
            if cur is None:
                hit_null = True
                break
        if not hit_null:
            return False
    return True


def order_independence(b0: bool, b1: bool, b2: bool, b3: bool, b4: bool, b5: bool, b6: bool, c0: int, c1: int, c2: int, c3: int, c4: int,
                       nn_null: bool, best_null: bool, *, doc: int, raise_idx: int, use_is_type_of: bool, item_async: bool, type_async: int) -> bool:
    """Every sync/awaitable assignment (7 resolver positions, list items, type resolution) and
    every completion order gives the data and nulled positions of synchronous execution."""
    bits = [True if b else False for b in (b0, b1, b2, b3, b4, b5, b6)]
    flags = [True if b else False for b in (nn_null, best_null)] + [item_async, type_async]
    return verdict(concrete(_order_independence, bits, [c0, c1, c2, c3, c4], flags, doc, raise_idx, use_is_type_of))


def _order_independence(bits, choices, flags, doc, raise_idx, use_is_type_of) -> bool:
    nn_null, best_null, ia, ta = flags
    root = world(nn_null, best_null)
    try:
        base = execute_plain(PARSED[doc], root, raise_idx, use_is_type_of)
        result, exc, run, loop, sched = execute_with(PARSED[doc], root, bits, raise_idx, choices, ia, ta, use_is_type_of, bits[6])
    except Hang:
        return False
    except Exception:
        return False
    if exc is not None or result is None:
        return False
    if result.data != base.data or error_paths(result) != error_paths(base) or not well_formed(result):
        return False
    # quiescence: nothing started by the execution is still pending
    return not loop.pending_tasks() and not run.inflight and not loop.exceptions


def mutation_serial(b0: bool, b1: bool, b2: bool, b3: bool, b4: bool, c0: int, c1: int, c2: int, c3: int, nn_null: bool, item_async: bool, *, raise_idx: int) -> bool:
    """Top-level mutation fields start only after the previous one and its whole subtree
    (including cancelled siblings after an error) finished."""
    bits = [True if b else False for b in (b0, b1, b2, b3, b4)] + [False, False]
    return verdict(concrete(_mutation_serial, bits, [c0, c1, c2, c3], True if nn_null else False, True if item_async else False, raise_idx))


def _mutation_serial(bits, choices, nn_null, item_async, raise_idx) -> bool:
    root = world(nn_null, False)
    try:
        base = execute_plain(MUTATION, root, raise_idx, False)
        result, exc, run, loop, sched = execute_with(MUTATION, root, bits, raise_idx, choices, item_async, False, False, False)
    except (Hang, Exception):
        return False
    if exc is not None or result is None or run.serial_violation:
        return False
    return result.data == base.data and error_paths(result) == error_paths(base) and not loop.pending_tasks() and not run.inflight


BOUNDS = {
    "quick": [
        "3 query templates + 1 mutation template; symbolic 7-bit sync/awaitable mask over resolver positions, awaitable list items, awaitable resolve_type / is_type_of, async-generator-backed list; completion order chosen by 5 symbolic scheduler decisions (first 5 settlements in any order, later ones FIFO); data null-ness bits; cells: template x which resolver raises (none or one of 4) x type resolution by is_type_of or resolve_type",
    ],
    "thorough": ["same cells, larger budget"],
}
ASSUMPTIONS = [
    "a FIFO-ready-queue event loop without timers (vf.detloop.DetLoop); other loops, threads and time are outside the claim",
    "settlements beyond the 5th symbolic decision are taken in creation order",
    "the synchronous baseline's conformance to the specification is C02's subject",
]


def obligations(tier):
    th = tier == "thorough"
    B = 1800 if th else 60
    obs = []
    for doc in range(len(DOCS)):
        for ri in (range(5) if th else (0, 2)):
            for ito in (False, True):
                for ia in (False, True):
                    for ta in ((0, 1, 2, 3) if ito else (0, 3)):
                        if not th and ia and ta in (1, 2):
                            continue
                        obs.append(dict(fn="order_independence", cell=dict(doc=doc, raise_idx=ri, use_is_type_of=ito, item_async=ia, type_async=ta), budget_s=B, expect_confirm=th))
    for ri in (range(5) if th else (0, 2)):
        obs.append(dict(fn="mutation_serial", cell=dict(raise_idx=ri), budget_s=B * 2, expect_confirm=th))
    return obs


def _bits(mask, n):
    return {("b" + str(i)): bool((mask >> i) & 1) for i in range(n)}


def corpus():
    base = dict(c0=0, c1=0, c2=0, c3=0, c4=0, nn_null=False, best_null=False)
    for doc in range(len(DOCS)):
        for ri in (0, 1, 2, 3, 4):
            for ito in (False, True):
                yield "order_independence", dict(doc=doc, raise_idx=ri, use_is_type_of=ito, item_async=False, type_async=0), dict(base, **_bits(0, 7))
                yield "order_independence", dict(doc=doc, raise_idx=ri, use_is_type_of=ito, item_async=True, type_async=3), dict(base, **_bits(127, 7), c0=1, c1=2, nn_null=True)
                yield "order_independence", dict(doc=doc, raise_idx=ri, use_is_type_of=ito, item_async=False, type_async=1), dict(base, **_bits(22, 7), c0=2, c1=0, c2=1)
                yield "order_independence", dict(doc=doc, raise_idx=ri, use_is_type_of=ito, item_async=True, type_async=2), dict(base, **_bits(16, 7), c0=1)
    for ri in range(5):
        yield "mutation_serial", dict(raise_idx=ri), dict(_bits(31, 5), c0=1, c1=0, c2=2, c3=0, nn_null=True, item_async=True)
        yield "mutation_serial", dict(raise_idx=ri), dict(_bits(0, 5), c0=0, c1=0, c2=0, c3=0, nn_null=False, item_async=False)
