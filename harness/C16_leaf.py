"""C16: leaf results are serialised within the specification's value domains (E1 part)."""
from __future__ import annotations

import math

from vf import assume, fixlen, forked, verdict
from vf import stubs

import graphql.type.scalars as scalars
import graphql.type.definition as definition
import graphql.execution.executor as executor
from graphql import (
    GraphQLBoolean, GraphQLEnumType, GraphQLError, GraphQLField, GraphQLFloat, GraphQLID, GraphQLInt, GraphQLList,
    GraphQLObjectType, GraphQLSchema, GraphQLString, execute_sync, parse,
)

stubs.const_inspect(scalars, definition, executor)

MAXI, MINI = 2**31 - 1, -(2**31)
SCALARS = [GraphQLInt, GraphQLFloat, GraphQLString, GraphQLBoolean, GraphQLID]


def in_domain(t, r) -> bool:
    if t is GraphQLInt:
        return type(r) is int and MINI <= r <= MAXI
    if t is GraphQLFloat:
        return type(r) in (int, float) and math.isfinite(r)
    if t is GraphQLString or t is GraphQLID:
        return isinstance(r, str)
    if t is GraphQLBoolean:
        return type(r) is bool
    return False


def check_output(t, v, same_meaning) -> bool:
    """coerce_output_value(v) is in the domain (or a GraphQLError), keeps the meaning given by
    ``same_meaning(r)``, and is accepted back by input coercion unchanged."""
    try:
        r = t.coerce_output_value(v)
    except GraphQLError:
        return True
    except Exception:
        return False
    if not in_domain(t, r):
        return False
    if not same_meaning(r):
        return False
    try:
        back = t.coerce_input_value(r)
    except Exception:
        return False
    return back == r or (t is GraphQLID and back == str(r))


def serialize_int_value(v: int, *, t: int) -> bool:
    """Arbitrary Python int through every built-in scalar (unbounded)."""
    ty = SCALARS[t]
    if ty is GraphQLBoolean:
        return verdict(check_output(ty, v, lambda r: r == (v != 0)))
    if ty is GraphQLString or ty is GraphQLID:
        return verdict(check_output(ty, v, lambda r: r == str(v)))  # decimal rendering
    return verdict(check_output(ty, v, lambda r: r == v))


def serialize_float_value(v: float, *, t: int) -> bool:
    """Arbitrary float (incl. nan, +-inf, -0.0) through every built-in scalar."""
    ty = SCALARS[t]
    if ty is GraphQLBoolean:
        return verdict(check_output(ty, v, lambda r: r == (v != 0)))
    if ty is GraphQLString:
        return verdict(check_output(ty, v, lambda r: math.isfinite(v)))
    if ty is GraphQLID:
        return verdict(check_output(ty, v, lambda r: math.isfinite(v) and v == int(v)))
    return verdict(check_output(ty, v, lambda r: r == v and math.isfinite(v)))


def serialize_bool_value(v: bool, *, t: int) -> bool:
    ty = SCALARS[t]
    if ty is GraphQLString:
        return verdict(check_output(ty, v, lambda r: r == ("true" if v else "false")))
    if ty is GraphQLID:
        return verdict(check_output(ty, v, lambda r: False))  # ID must reject booleans
    return verdict(check_output(ty, v, lambda r: r == v))


def _py_int(s: str):
    try:
        return int(s)
    except ValueError:
        return None


def _py_float(s: str):
    try:
        return float(s)
    except ValueError:
        return None


def serialize_str_value(s: str, *, t: int, length: int) -> bool:
    """Arbitrary short text (numeric-looking, blank, '_', non-ASCII digits, 'nan', 'inf', '1e3')."""
    assume(len(s) == length)
    ty = SCALARS[t]
    if ty is GraphQLInt:
        return verdict(check_output(ty, s, lambda r: s != "" and _py_int(s) == r))
    if ty is GraphQLFloat:
        return verdict(check_output(ty, s, lambda r: s != "" and _py_float(s) == r))
    if ty is GraphQLBoolean:
        return verdict(check_output(ty, s, lambda r: False))  # Boolean must reject text
    return verdict(check_output(ty, s, lambda r: r == s))


class WithStr:
    def __str__(self):
        return "custom"


class MyInt(int):
    pass


class MyFloat(float):
    pass


class MyStr(str):
    pass


OTHER = [b"b", [1], {"a": 1}, (1,), None, WithStr(), MyInt(7), MyFloat(1.5), MyStr("7"), object(), {1}, MyInt(2**31), MyFloat("nan")]


def other_kinds(k: int, *, t: int) -> bool:
    """Type dispatch over non-scalar and subclassed Python values."""
    k = forked(k, 0, len(OTHER))
    v = OTHER[k]
    ty = SCALARS[t]
    try:
        r = ty.coerce_output_value(v)
    except GraphQLError:
        return verdict(True)
    except Exception:
        return verdict(False)
    if ty is GraphQLInt:
        ok = isinstance(r, int) and not isinstance(r, bool) and MINI <= r <= MAXI
    elif ty is GraphQLFloat:
        ok = isinstance(r, (int, float)) and math.isfinite(r)
    else:
        ok = in_domain(ty, r)
    # containers, None, bare objects and sets never serialise as a scalar
    return verdict(ok and k not in (0, 1, 2, 3, 4, 9, 10))


ENUMS = [
    GraphQLEnumType("E0", {"A": 0, "B": 1, "C": 2}),
    GraphQLEnumType("E1", {"ONE": 1, "TRUE": True, "ONEF": 1.0, "S": "ONE"}),
    GraphQLEnumType("E2", {"X": None, "Y": "X", "L": [1], "D": {"a": 1}}),
    GraphQLEnumType("E3", {"DONE": "CLOSED", "CLOSED": None, "OPEN": "DONE"}),
]


ENUM_STRS = ["ONE", "X", "CLOSED", "DONE", "A", "zz", "", "OPEN", "Y"]


def enum_output(kind: int, iv: int, si: int, *, e: int) -> bool:
    """Generated enums with colliding / unhashable / missing internal values: an emitted name is
    a name of the enum whose internal value equals the output value, so that reading the name
    back gives the same meaning."""
    en = ENUMS[e]
    kind = forked(kind, 0, 7)
    iv = forked(iv, -1, 4)
    sv = ENUM_STRS[forked(si, 0, len(ENUM_STRS))]
    v = [iv, sv, float(iv), iv == 1, [iv], {"a": iv}, None][kind]
    try:
        r = en.coerce_output_value(v)
    except GraphQLError:
        # must not reject a value that is the internal value of some member
        for name, ev in en.values.items():
            internal = name if ev.value is None else ev.value
            if type(internal) is type(v) and internal == v and v is not None:
                return verdict(False)
        return verdict(True)
    except Exception:
        return verdict(False)
    if r not in en.values:
        return verdict(False)
    # documented lookup rule: the first member (declaration order) whose internal value -- its
    # value, or its name if it has none -- equals the output value
    for name, ev in en.values.items():
        internal = name if ev.value is None else ev.value
        if internal == v:
            if r != name:
                return verdict(False)
            break
    try:
        back = en.coerce_input_value(r)
    except Exception:
        return verdict(False)
    if back is None:
        back = r
    return verdict(back == v)


def _leaf_schema(value):
    def res(*_a):
        return value

    fields = {
        "i": GraphQLField(GraphQLInt, resolve=res), "f": GraphQLField(GraphQLFloat, resolve=res),
        "s": GraphQLField(GraphQLString, resolve=res), "b": GraphQLField(GraphQLBoolean, resolve=res),
        "d": GraphQLField(GraphQLID, resolve=res),
        "fl": GraphQLField(GraphQLList(GraphQLFloat), resolve=lambda *_a: [value, 1.5]),
    }
    return GraphQLSchema(GraphQLObjectType("Query", fields))


LEAF_DOC = parse("{ i f s b d fl }")
FIELD_TYPES = {"i": GraphQLInt, "f": GraphQLFloat, "s": GraphQLString, "b": GraphQLBoolean, "d": GraphQLID}


def through_executor(kind: int, iv: int, fv: float, sv: str) -> bool:
    """Result coercion as wired into execution (complete_leaf_value): every leaf of the
    response is in its domain or null with a field error."""
    kind = forked(kind, 0, 4)
    assume(len(sv) <= 2)
    v = [iv, fv, sv, iv > 0][kind]
    try:
        r = execute_sync(_leaf_schema(v), LEAF_DOC)
    except Exception:
        return verdict(False)
    data = r.data
    if not isinstance(data, dict):
        return verdict(False)
    nulls = 0
    for name, ty in FIELD_TYPES.items():
        x = data[name]
        if x is None:
            nulls += 1
        elif not in_domain(ty, x):
            return verdict(False)
    fl = data["fl"]
    if fl is None:
        return verdict(False)
    if fl[0] is None:
        nulls += 1
    elif not in_domain(GraphQLFloat, fl[0]):
        return verdict(False)
    return verdict(len(r.errors or []) == nulls)


BOUNDS = {
    "quick": [
        "every Python int (unbounded), every float (real-valued model + nan/+-inf), every bool through all five built-in scalars",
        "every str of exactly 0..3 code points through all five built-in scalars (oracle: Python int()/float())",
        "13 other values (bytes, list, dict, tuple, None, object with __str__, int/float/str subclasses, object, set)",
        "numeric text m e[+-]NNN, m.m E[+-]NNN and m followed by 0..399 zeros (NNN 0..399, optionally blank-padded) through Int and Float (all string-accepting scalars in thorough)",
        "4 generated enums (colliding 1/True/1.0, unhashable values, missing values, name/value crossings) x 7 output value kinds (ints -1..3, 9 strings)",
        "the same through execute_sync on a query selecting one field of each leaf type and a list of Float",
        "E2 (see C16_numeric): IEEE-754 double / 72-bit integer exactness of the numeric kernels",
    ],
    "thorough": ["as quick with strings up to 4 code points"],
}
ASSUMPTIONS = [
    "pyutils.inspect is replaced by a constant in scalars/definition/executor during symbolic runs (messages are not the subject)",
    "CrossHair models finite floats as reals: rounding behaviour is claimed only by the E2 obligations",
    "custom scalars and __str__ methods with side effects are outside the claim",
]


def _numeric_text(form, m, e, neg, eneg, pad, t) -> bool:
    sign = "-" if neg else ""
    if form == 0:
        text = sign + str(m) + "e" + ("-" if eneg else "") + str(e)
    elif form == 1:
        text = sign + str(m) + "." + str(m) + "E" + ("-" if eneg else "+") + str(e)
    else:
        text = sign + str(m) + "0" * e
    if pad:
        text = " " + text + " "
    ty = SCALARS[t]
    if ty is GraphQLInt:
        return check_output(ty, text, lambda r: _py_int(text) == r)
    if ty is GraphQLFloat:
        return check_output(ty, text, lambda r: _py_float(text) == r)
    if ty is GraphQLBoolean:
        return check_output(ty, text, lambda r: False)
    return check_output(ty, text, lambda r: r == text)


def numeric_text_domain(mk: int, b: int, c: int, neg: bool, eneg: bool, pad: bool, *, t: int, form: int, a: int) -> bool:
    """Numeric-looking text a resolver may return: m e[+-]NNN, m.m E[+-]NNN and m followed by
    0..399 zeros (optionally padded with blanks): the emitted value stays in the domain -- a
    *finite* Float, a 32-bit Int -- or a field error is raised."""
    from vf import concrete

    m = [1, 5, 9][forked(mk, 0, 3)]
    e = 100 * a + 10 * forked(b, 0, 10) + forked(c, 0, 10)
    return verdict(concrete(_numeric_text, form, m, e, True if neg else False, True if eneg else False, True if pad else False, t))


def obligations(tier):
    th = tier == "thorough"
    B = 900 if th else 100
    obs = []
    for t in range(5):
        obs.append(dict(fn="serialize_int_value", cell=dict(t=t), budget_s=B))
        obs.append(dict(fn="serialize_float_value", cell=dict(t=t), budget_s=B if (th or t in (1, 3)) else 40, expect_confirm=t in (1, 3)))
        obs.append(dict(fn="serialize_bool_value", cell=dict(t=t), budget_s=B))
        obs.append(dict(fn="other_kinds", cell=dict(t=t), budget_s=B))
        for n in range(0, (4 if th else 3) + 1):
            hard = t in (0, 1) and n >= 1  # int()/float() of symbolic text: enumerative model
            obs.append(dict(fn="serialize_str_value", cell=dict(t=t, length=n), budget_s=B if (th or not hard) else 40, expect_confirm=not hard))
    for t in ((0, 1, 2, 4) if th else (0, 1)):
        for form in (0, 1, 2):
            for a in (0, 1, 2, 3):
                obs.append(dict(fn="numeric_text_domain", cell=dict(t=t, form=form, a=a), budget_s=600 if th else 40, expect_confirm=th))
    for e in range(len(ENUMS)):
        obs.append(dict(fn="enum_output", cell=dict(e=e), budget_s=B))
    obs.append(dict(fn="through_executor", cell={}, budget_s=B * 2))
    return obs


def corpus():
    # expectations pinned by tests/type/test_scalars.py
    for t in range(5):
        yield "serialize_int_value", dict(t=t), dict(v=1)
        yield "serialize_int_value", dict(t=t), dict(v=2**31)
        yield "serialize_int_value", dict(t=t), dict(v=-(2**31))
        yield "serialize_float_value", dict(t=t), dict(v=0.1)
        yield "serialize_float_value", dict(t=t), dict(v=float("nan"))
        yield "serialize_float_value", dict(t=t), dict(v=-1e100)
        yield "serialize_bool_value", dict(t=t), dict(v=True)
        yield "serialize_str_value", dict(t=t, length=2), dict(s="-1")
        yield "serialize_str_value", dict(t=t, length=3), dict(s="1e3")
        yield "serialize_str_value", dict(t=t, length=3), dict(s="inf")
        yield "other_kinds", dict(t=t), dict(k=5)
    for t in (0, 1):
        for form in (0, 1, 2):
            yield "numeric_text_domain", dict(t=t, form=form, a=3), dict(mk=2, b=0, c=9, neg=False, eneg=False, pad=False)
            yield "numeric_text_domain", dict(t=t, form=form, a=3), dict(mk=0, b=1, c=0, neg=True, eneg=False, pad=True)
            yield "numeric_text_domain", dict(t=t, form=form, a=0), dict(mk=1, b=0, c=2, neg=False, eneg=True, pad=False)
    for e in range(len(ENUMS)):
        yield "enum_output", dict(e=e), dict(kind=0, iv=1, si=1)
        yield "enum_output", dict(e=e), dict(kind=1, iv=1, si=2)
    yield "through_executor", {}, dict(kind=1, iv=0, fv=float("inf"), sv="")
    yield "through_executor", {}, dict(kind=0, iv=2, fv=0.0, sv="")
