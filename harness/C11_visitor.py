"""C11: AST traversal visits every node once, in order, and edits without mutating."""
from __future__ import annotations

import copy

from vf import assume, forked, verdict

from graphql import build_schema
from graphql.language import BREAK, REMOVE, SKIP, ParallelVisitor, Visitor, parse, visit
from graphql.language.ast import QUERY_DOCUMENT_KEYS, FieldNode, NameNode, Node
from graphql.utilities import TypeInfo, TypeInfoVisitor

SOURCES = [
    "{ a }",
    "query Q($v: Int = 1) @d { a: b(x: $v) { c } ...F }",
    "fragment F on T @d { x ... on U { y } }",
    'type T implements I @d { "d" f(a: Int = 1 @e): [T!]! }',
    "extend schema @d { query: Q } enum E { A B }",
    '{ f(o: {k: [1, "s", $v]}) }',
    "union U = A | B input I { f: Int = 2 } directive @x(a: Int) repeatable on FIELD",
    "{ a b c }",
    "interface I { f: Int } scalar S @s extend type T { g: S }",
    "subscription { s @skip(if: true) } mutation M { m }",
]
TREES = [parse(s, experimental_fragment_arguments=True) for s in SOURCES]

IDLE, A_SKIP, A_BREAK, A_REMOVE, A_NODE, A_VALUE = range(6)
ACTION_NAMES = ["idle", "skip", "break", "remove", "replace-by-node", "replace-by-value"]


def make_action(a: int):
    if a == A_SKIP:
        return SKIP
    if a == A_BREAK:
        return BREAK
    if a == A_REMOVE:
        return REMOVE
    if a == A_NODE:
        return FieldNode(name=NameNode(value="replaced"))
    if a == A_VALUE:
        return "VALUE"
    return None


def desc(x):
    if isinstance(x, tuple):
        return ("tuple", len(x))
    if isinstance(x, Node):
        return x.kind
    return ("other", repr(x))


class Scripted(Visitor):
    """Returns, at its n-th callback, the action the (symbolic) decision table prescribes."""

    def __init__(self, table):
        super().__init__()
        self.table = table  # list of (call index, action)
        self.count = 0
        self.log = []

    def _call(self, phase, node, key, parent, path, ancestors):
        n = self.count
        self.count += 1
        self.log.append((phase, node.kind, key, tuple(path), desc(parent) if parent is not None else None, tuple(desc(a) for a in ancestors)))
        for idx, act in self.table:
            if n == idx:
                return make_action(act)
        return None

    def enter(self, node, key, parent, path, ancestors):
        return self._call("enter", node, key, parent, path, ancestors)

    def leave(self, node, key, parent, path, ancestors):
        return self._call("leave", node, key, parent, path, ancestors)


class Stop(Exception):
    pass


def child_attrs(node: Node):
    """Node-valued attributes in *document order*, derived from source positions (independent
    of QUERY_DOCUMENT_KEYS); attributes of nodes without location keep the table order."""
    attrs = []
    for name in node.keys:
        if name == "loc":
            continue
        v = getattr(node, name, None)
        if isinstance(v, Node):
            attrs.append((v.loc.start if v.loc else None, name))
        elif isinstance(v, tuple) and v and all(isinstance(x, Node) for x in v):
            attrs.append((v[0].loc.start if v[0].loc else None, name))
    if any(pos is None for pos, _ in attrs):
        order = {k: i for i, k in enumerate(QUERY_DOCUMENT_KEYS.get(node.kind, ()))}
        return sorted((name for _pos, name in attrs), key=lambda n: order.get(n, 99))
    return [name for _pos, name in sorted(attrs)]


_NOEDIT = object()


def reference_visit(root: Node, script: Scripted):
    """Recursive reference traversal (the documented contract).  Returns (result, edited)."""

    def walk(node, key, parent, path, ancestors):
        """-> replacement for this position: _NOEDIT | REMOVE | value"""
        act = script._call("enter", node, key, parent, path, ancestors)
        replaced = _NOEDIT
        if act is BREAK:
            raise Stop
        if act is SKIP:
            return _NOEDIT
        if act is REMOVE:
            return REMOVE
        if act is not None:
            if not isinstance(act, Node):
                return act
            node = act
            replaced = act
        below = ancestors + [parent] if parent is not None else list(ancestors)
        changes = {}
        for attr in child_attrs(node):
            child = getattr(node, attr)
            if isinstance(child, tuple):
                items = []
                changed = False
                inner = below + [node]
                for i, item in enumerate(child):
                    r = walk(item, i, child, path + [attr, i], inner)
                    if r is _NOEDIT:
                        items.append(item)
                    else:
                        changed = True
                        if r is not REMOVE:
                            items.append(r)
                if changed:
                    changes[attr] = tuple(items)
            else:
                r = walk(child, attr, node, path + [attr], below)
                if r is not _NOEDIT:
                    # "remove: delete this node" -- a deleted single child leaves the attribute
                    # empty (None), exactly as a deleted list element leaves the list shorter
                    changes[attr] = None if r is REMOVE else r
        if changes:
            values = {k: getattr(node, k) for k in node.keys}
            values.update(changes)
            node = node.__class__(**values)
            replaced = node
        act = script._call("leave", node, key, parent, path, ancestors)
        if act is BREAK:
            raise Stop
        if act is REMOVE:
            return REMOVE
        if act is not None and act is not SKIP:
            return act
        return replaced

    try:
        r = walk(root, None, None, [], [])
    except Stop:
        return None, True  # result after BREAK is not part of the documented contract
    if r is _NOEDIT:
        return root, False
    return r, False


def all_nodes(node, out):
    out.append(node)
    for k in node.keys:
        v = getattr(node, k, None)
        if isinstance(v, Node):
            all_nodes(v, out)
        elif isinstance(v, tuple):
            for x in v:
                if isinstance(x, Node):
                    all_nodes(x, out)
    return out


def _check(tree_i: int, table) -> bool:
    root = TREES[tree_i]
    before = copy.deepcopy(root)
    ids_before = [id(n) for n in all_nodes(root, [])]
    real = Scripted(table)
    try:
        result = visit(root, real)
    except Exception:
        return False
    ref = Scripted(table)
    expect, stopped = reference_visit(root, ref)
    if real.log != ref.log:
        return False
    if root != before or [id(n) for n in all_nodes(root, [])] != ids_before:
        return False  # input tree modified
    if stopped:
        return True
    if expect is root:
        return result is root
    if expect is REMOVE:
        return result is REMOVE or result is None
    return result == expect


def one_decision(idx: int, act: int, *, tree: int) -> bool:
    """Every single decision (which callback, which action) on a tree."""
    assume(0 <= idx)
    act = forked(act, 0, 6)
    return verdict(_check(tree, [(idx, act)]))


def two_decisions(i1: int, a1: int, i2: int, *, tree: int, a2: int) -> bool:
    """Every pair of decisions."""
    assume(0 <= i1 < i2)
    a1 = forked(a1, 1, 6)
    return verdict(_check(tree, [(i1, a1), (i2, a2)]))


def keys_cover_node_fields(k: int) -> bool:
    """QUERY_DOCUMENT_KEYS[kind] is exactly the set of node-valued fields of the node class."""
    import dataclasses  # noqa: F401
    import typing

    from graphql.language import ast

    classes = sorted((c for c in vars(ast).values() if isinstance(c, type) and issubclass(c, Node) and getattr(c, "kind", None) in QUERY_DOCUMENT_KEYS), key=lambda c: c.__name__)
    k = forked(k, 0, len(classes))
    cls = classes[k]
    hints = typing.get_type_hints(cls, vars(ast))
    nodeish = set()
    for name in cls.keys:
        if name == "loc":
            continue
        h = repr(hints.get(name, ""))
        if "Node" in h:
            nodeish.add(name)
    return verdict(set(QUERY_DOCUMENT_KEYS[cls.kind]) == nodeish)


def document_order(*, tree: int) -> bool:
    """Idle traversal enters nodes in non-decreasing source position and leaves after children."""
    v = Scripted([])
    visit(TREES[tree], v)
    starts = []

    class Pos(Visitor):
        def enter(self, node, *_a):
            starts.append(node.loc.start)

    visit(TREES[tree], Pos())
    nodes = all_nodes(TREES[tree], [])
    return verdict(starts == sorted(starts) and len(starts) == len(nodes) and v.count == 2 * len(nodes))


def parallel(i1: int, a1: int, i2: int, a2: int, *, tree: int) -> bool:
    """Two non-editing scripted visitors in parallel each see the call sequence they see alone."""
    assume(0 <= i1 and 0 <= i2)
    a1 = forked(a1, 0, 3)
    a2 = forked(a2, 0, 3)
    root = TREES[tree]
    v1, v2 = Scripted([(i1, a1)]), Scripted([(i2, a2)])
    s1, s2 = Scripted([(i1, a1)]), Scripted([(i2, a2)])
    try:
        r = visit(root, ParallelVisitor([v1, v2]))
        visit(root, s1)
        visit(root, s2)
    except Exception:
        return verdict(False)
    return verdict(v1.log == s1.log and v2.log == s2.log and r is root)


TI_SCHEMA = build_schema("type Query { a: Int b(x: Int): T } type T { c: Int x: Int } type U { y: Int } directive @d on QUERY | FRAGMENT_DEFINITION")


def with_type_info(i1: int, a1: int, *, tree: int) -> bool:
    """Wrapping in TypeInfoVisitor does not change the call sequence."""
    assume(0 <= i1)
    a1 = forked(a1, 0, 3)
    root = TREES[tree]
    v, s = Scripted([(i1, a1)]), Scripted([(i1, a1)])
    try:
        r = visit(root, TypeInfoVisitor(TypeInfo(TI_SCHEMA), v))
        visit(root, s)
    except Exception:
        return verdict(False)
    return verdict(v.log == s.log and r is root)


BOUNDS = {
    "quick": [
        "10 trees (5..30 nodes, every field kind: node-valued, tuple-valued, absent) parsed from source",
        "one decision: every callback index x {idle, skip, break, remove, replace-by-node, replace-by-value} on every tree",
        "two decisions: every ordered pair of callback indices x 5x5 actions on the 4 smallest trees",
        "parallel: two visitors with one {idle, skip, break} decision each at any callback, 4 trees; TypeInfoVisitor wrapping on 2 trees",
        "QUERY_DOCUMENT_KEYS vs node-valued dataclass fields for every node class; idle traversal in source order on every tree",
    ],
    "thorough": ["two decisions and parallel on all 10 trees"],
}
ASSUMPTIONS = [
    "visitors that mutate nodes in place or raise are outside the claim; custom visitor_keys are outside the claim",
    "the value returned by visit() after BREAK is not constrained (not documented); the call log and non-mutation still are",
    "the reference traversal derives child order from source positions, not from QUERY_DOCUMENT_KEYS",
]

SMALL = [0, 7, 2, 9]


def obligations(tier):
    th = tier == "thorough"
    B = 900 if th else 120
    obs = [dict(fn="keys_cover_node_fields", cell={}, budget_s=B)]
    for t in range(len(TREES)):
        obs.append(dict(fn="one_decision", cell=dict(tree=t), budget_s=B))
        obs.append(dict(fn="document_order", cell=dict(tree=t), budget_s=30))
    for t in (range(len(TREES)) if th else SMALL):
        for a2 in range(1, 6):
            obs.append(dict(fn="two_decisions", cell=dict(tree=t, a2=a2), budget_s=B))
        obs.append(dict(fn="parallel", cell=dict(tree=t), budget_s=B))
    for t in (1, 2):
        obs.append(dict(fn="with_type_info", cell=dict(tree=t), budget_s=B))
    return obs


def corpus():
    for t in range(len(TREES)):
        yield "one_decision", dict(tree=t), dict(idx=1, act=A_SKIP)
        yield "one_decision", dict(tree=t), dict(idx=3, act=A_NODE)
        yield "one_decision", dict(tree=t), dict(idx=6, act=A_REMOVE)
        yield "one_decision", dict(tree=t), dict(idx=5, act=A_VALUE)
        yield "one_decision", dict(tree=t), dict(idx=0, act=A_SKIP)
        yield "document_order", dict(tree=t), {}
    yield "two_decisions", dict(tree=7, a2=A_REMOVE), dict(i1=4, a1=A_REMOVE, i2=9)
    yield "parallel", dict(tree=1), dict(i1=3, a1=A_SKIP, i2=8, a2=A_BREAK)
    yield "with_type_info", dict(tree=1), dict(i1=3, a1=A_SKIP)
    yield "keys_cover_node_fields", {}, dict(k=3)
