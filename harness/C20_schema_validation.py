"""C20: schema validation reports every type-system violation and never crashes."""
from __future__ import annotations

from vf import assume, concrete, forked, symbolic_run, verdict

from graphql import GraphQLError, GraphQLSchema, build_schema, graphql_sync, validate_schema

BASE = '''
schema { query: Q mutation: M }
interface Node { id: ID! }
interface Named implements Node { id: ID! name(upper: Boolean = false): String }
type Q implements Named & Node { id: ID! name(upper: Boolean = false): String u: U e(v: E = A): E list(i: In = {a: 1}): [Q!]! one(o: One): Int cov(a: [Int!]): Node }
type M { set(i: In!): Q }
type Other { x: Int }
union U = Q | Other
enum E { A B }
enum E2 { X }
input In { a: Int = 1 b: [In!] c: In2 }
input In2 { r: In s: String = "d" }
input One @oneOf { x: Int y: String }
directive @dir(arg: Int = 3, old: Int @deprecated) repeatable on FIELD | QUERY
'''

# (old text, new text, violates a type-system rule?)  -- every replacement applies to BASE
MUTATIONS = [
    ("schema { query: Q mutation: M }", "schema { mutation: M }", True),                                   # 0 no query root
    ("schema { query: Q mutation: M }", "schema { query: E mutation: M }", True),                          # 1 root not an object
    ("schema { query: Q mutation: M }", "schema { query: Q mutation: Q }", True),                          # 2 duplicate root
    (" name(upper: Boolean = false): String u: U", " u: U", True),                                          # 3 interface field missing
    ("String u: U", "Int u: U", True),                                                                      # 4 field type not covariant
    ("name(upper: Boolean = false): String u: U", "name: String u: U", True),                               # 5 interface argument missing
    ("name(upper: Boolean = false): String u: U", "name(upper: Boolean = false, extra: Int!): String u: U", True),   # 6 extra required arg
    ("name(upper: Boolean = false): String u: U", "name(upper: Boolean = false, extra: Int): String u: U", False),   # 7 extra optional arg: fine
    ("name(upper: Boolean = false): String u: U", "name(upper: Boolean! = false): String u: U", True),      # 8 argument type invariance
    ("interface Node { id: ID! }", "interface Node implements Node { id: ID! }", True),                     # 9 self-implementing interface
    ("union U = Q | Other", "union U", True),                                                                # 10 union without members
    ("union U = Q | Other", "union U = Q | E", True),                                                        # 11 union with non-object member
    ("union U = Q | Other", "union U = Q | Q", True),                                                        # 12 duplicate union member
    ("type Other { x: Int }", "type Other", True),                                                           # 13 empty object
    ("enum E2 { X }", "enum E2", True),                                                                      # 14 empty enum
    ('input In2 { r: In s: String = "d" }', "input In2", True),                                              # 15 empty input object
    ("b: [In!] c: In2 }", "b: [In!] c: Other }", True),                                                     # 16 output type in input position
    ("type Other { x: Int }", "type Other { x: In }", True),                                                 # 17 input type in output position
    ("type Other { x: Int }", "type Other { __x: Int }", True),                                              # 18 reserved name
    ("e(v: E = A): E", "e(v: E = C): E", True),                                                              # 19 invalid enum default
    ("input In { a: Int = 1", 'input In { a: Int = "s"', True),                                              # 20 invalid scalar default
    ("list(i: In = {a: 1})", 'list(i: In = {a: "x"})', True),                                                # 21 invalid nested default
    ("list(i: In = {a: 1})", 'list(i: In = {c: {s: "z"}})', False),                                          # 22 valid default reaching In2
    ("one(o: One): Int", "one(o: Other = 1): Int", True),                                                    # 23 default on a non-input-typed argument
    ("b: [In!] c: In2 }", "b: In! c: In2 }", True),                                                          # 24 unbreakable cycle of length 1
    ('input In2 { r: In s: String = "d" }', 'input In2 { r: In! s: String = "d" }', False),                  # 25 In -> In2 (nullable) -> In!: breakable
    ("b: [In!] c: In2 }", "b: [In!] c: In2 d: [In!]! = [] }", False),                                        # 26 non-null cycle through a list: breakable
    ("input One @oneOf { x: Int y: String }", "input One @oneOf { x: Int! y: String }", True),               # 27 OneOf with non-null field
    ("input One @oneOf { x: Int y: String }", "input One @oneOf { x: Int = 1 y: String }", True),            # 28 OneOf with default
    ("directive @dir(arg: Int = 3,", "directive @dir(arg: Int! @deprecated,", True),                         # 29 required deprecated argument
    ('s: String = "d" }', 's: String! @deprecated }', True),                                                 # 30 required deprecated input field
    ("directive @dir(arg: Int = 3,", "directive @dir(__arg: Int = 3,", True),                                # 31 reserved argument name
    ("enum E2 { X }", "enum E2 { X } input In3 { x: In3 = {} }", True),                                      # 32 default value cycle
    ("cov(a: [Int!]): Node", "cov(a: [Int!]): Named", False),                                                # 33 narrower return type: fine
    ("interface Node { id: ID! }", "interface Node { id: ID }", False),                                      # 34 implementers return ID!: covariant, fine
    ("enum E2 { X }", "enum E2 { X true }", True),                                                           # 35 enum value named true
]
N_MUT = len(MUTATIONS)
# pairs of individually legal edits that are illegal together
INTERACTIONS = {frozenset((22, 25))}  # default {c: {s: "z"}} omits In2.r once it is required

WRAPPERS = ["T", "T!", "[T]", "[T]!", "[T!]", "[T!]!"]


def wrapper_sub(a: str, b: str) -> bool:
    """is a (implementing field type) a subtype of b (interface field type), same named type"""
    if b.endswith("!"):
        return a.endswith("!") and wrapper_sub(a[:-1], b[:-1])
    if a.endswith("!"):
        return wrapper_sub(a[:-1], b)
    if b.startswith("["):
        return a.startswith("[") and wrapper_sub(a[1:-1], b[1:-1])
    if a.startswith("["):
        return False
    return a == b


def apply_mutations(idxs):
    sdl = BASE
    for i in idxs:
        old, new, _bad = MUTATIONS[i]
        if old not in sdl:
            return None  # overlapping edits: this pair is not a schema of the family
        sdl = sdl.replace(old, new)
    return sdl


def check_schema(sdl: str, violating: bool, assume_valid_sdl: bool) -> bool:
    """(all arguments are concrete by the time this is called)"""
    return concrete(_check_schema, sdl, violating, assume_valid_sdl)


def _check_schema(sdl: str, violating: bool, assume_valid_sdl: bool) -> bool:
    try:
        schema = build_schema(sdl, assume_valid_sdl=assume_valid_sdl)
    except (GraphQLError, TypeError):
        return True  # not constructible: outside "every schema that can be constructed"
    except Exception:
        return False
    try:
        errs = validate_schema(schema)
        again = validate_schema(schema)
    except Exception:
        return False
    if not isinstance(errs, list) or errs != again:
        return False
    if (len(errs) > 0) != violating:
        return False
    try:
        r = graphql_sync(schema, "{ __typename }")
    except Exception:
        return False
    if violating:
        return r.data is None and bool(r.errors) and [e.message for e in r.errors] == [e.message for e in errs]
    return r.errors is None and r.data == {"__typename": schema.query_type.name}


def single_and_double(m2: int, route: bool, *, m1: int) -> bool:
    """Mutation m1 alone (m2 == m1) or together with any second mutation: validate_schema never
    raises; errors are reported iff one of the applied mutations violates a rule; a request
    against the schema returns exactly those errors and executes nothing."""
    m2 = forked(m2, 0, N_MUT)
    idxs = [m1] if m2 == m1 else [m1, m2]
    sdl = apply_mutations(idxs)
    assume(sdl is not None)
    violating = any(MUTATIONS[i][2] for i in idxs) or frozenset(idxs) in INTERACTIONS
    return verdict(check_schema(sdl, violating, bool(route)))


def base_is_valid(route: bool) -> bool:
    return verdict(check_schema(BASE, False, bool(route)))


def covariance(wa: int, wb: int, named: int, route: bool) -> bool:
    """Interface field type wrappers: every implementing/interface wrapper pair."""
    wa, wb = forked(wa, 0, 6), forked(wb, 0, 6)
    named = forked(named, 0, 3)
    a = WRAPPERS[wa].replace("T", ["Int", "Node", "Q"][named])
    b = WRAPPERS[wb].replace("T", ["Int", "Node", "Node"][named])
    sdl = "interface Node { id: ID } interface W { f: " + b + " } type Q implements W & Node { id: ID f: " + a + " } type Query { w: W }"
    return verdict(check_schema(sdl, not wrapper_sub(WRAPPERS[wa], WRAPPERS[wb]), bool(route)))


def argument_invariance(wa: int, wb: int, route: bool) -> bool:
    """Interface argument types must be identical, wrapper by wrapper."""
    wa, wb = forked(wa, 0, 6), forked(wb, 0, 6)
    a = WRAPPERS[wa].replace("T", "Int")
    b = WRAPPERS[wb].replace("T", "Int")
    sdl = "interface W { f(x: " + b + "): Int } type Query implements W { f(x: " + a + "): Int }"
    return verdict(check_schema(sdl, wa != wb, bool(route)))


DTYPES = ["Int", "Int!", "[Int]", "E", "In", "One", "Other", "[Other!]", "U", "Node", "In2", "[Int!]", "[In]"]
DLITS = ["1", '"s"', "null", "[1]", "A", "{a: 1}", "{x: 1}", "{c: {r: {a: 2}}}", "{}", "[{x: 1}]", "{c: {x: 1}}", "1.5", "true", "[1, null]"]
DVALID = {
    "Int": {"1", "null"}, "Int!": {"1"}, "[Int]": {"1", "null", "[1]", "[1, null]"}, "[Int!]": {"1", "null", "[1]"}, "E": {"A", "null"},
    "In": {"null", "{a: 1}", "{c: {r: {a: 2}}}", "{}"}, "One": {"null", "{x: 1}"}, "In2": {"null", "{}"},
    "[In]": {"null", "{a: 1}", "{c: {r: {a: 2}}}", "{}"},
}


def default_vs_type(li: int, route: bool, *, ti: int) -> bool:
    """Every (argument type, default literal) pair incl. non-input types: reported, never raised."""
    t = DTYPES[ti]
    lit = DLITS[forked(li, 0, len(DLITS))]
    sdl = BASE.replace("one(o: One): Int", "one(o: One): Int dflt(x: " + t + " = " + lit + "): Int")
    ok = t in DVALID and lit in DVALID[t]
    return verdict(check_schema(sdl, not ok, bool(route)))


def default_pairs(t2: int, li: int, where: int, *, t1: int) -> bool:
    """Two default-valued positions with the same literal text (argument + argument, argument +
    directive argument, argument + input field): each is judged against its own type."""
    a, b = DTYPES[t1], DTYPES[forked(t2, 0, len(DTYPES))]
    lit = DLITS[forked(li, 0, len(DLITS))]
    where = forked(where, 0, 3)
    if where == 0:
        sdl = BASE.replace("one(o: One): Int", "one(o: One): Int dflt(x: " + a + " = " + lit + ", y: " + b + " = " + lit + "): Int")
    elif where == 1:
        sdl = BASE.replace("one(o: One): Int", "one(o: One): Int dflt(y: " + b + " = " + lit + "): Int").replace("directive @dir(arg: Int = 3,", "directive @dir(arg: Int = 3, first: " + a + " = " + lit + ",")
    else:
        sdl = BASE.replace("one(o: One): Int", "one(o: One): Int dflt(x: " + a + " = " + lit + "): Int").replace("enum E2 { X }", "enum E2 { X } input In4 { y: " + b + " = " + lit + " }")
    ok = a in DVALID and lit in DVALID[a] and b in DVALID and lit in DVALID[b]
    return verdict(check_schema(sdl, not ok, False))


EXTENSIONS = [
    ("interface Extra { z: Int } extend type Q implements Extra", True),
    ("extend union U = E", True),
    ("input Empty", True),
    ("extend schema { subscription: Q }", True),
    ("extend type Other { y: In }", True),
    ("extend input In2 { bad: Q }", True),
    ("extend type Other { y: Int }", False),
    ("extend enum E2 { Y }", False),
]


def extended_schema_is_validated(e: int, base_assumed_valid: bool, how: int) -> bool:
    """A schema obtained by extending another one is validated on its own merits, whatever was
    assumed about the base schema."""
    from graphql import extend_schema, parse

    ext, bad = EXTENSIONS[forked(e, 0, len(EXTENSIONS))]
    how = forked(how, 0, 2)
    base_assumed_valid = True if base_assumed_valid else False
    return verdict(concrete(_extended, ext, bad, how, base_assumed_valid))


def _extended(ext, bad, how, base_assumed_valid):
    from graphql import extend_schema, parse

    def verdict(x):  # local: the caller routes the result through vf.verdict
        return x

    try:
        base = build_schema(BASE, assume_valid=bool(base_assumed_valid)) if how == 0 else build_schema(BASE, assume_valid_sdl=True, assume_valid=bool(base_assumed_valid))
        schema = extend_schema(base, parse(ext), assume_valid_sdl=True)
    except (GraphQLError, TypeError):
        return verdict(True)
    except Exception:
        return verdict(False)
    try:
        errs = validate_schema(schema)
        r = graphql_sync(schema, "{ __typename }")
    except Exception:
        return verdict(False)
    if bad:
        return verdict(len(errs) > 0 and r.data is None)
    return verdict(errs == [] and r.errors is None)


def nested_default_into_output_type(li: int, route: bool, field_kind: int) -> bool:
    """An input object whose field is (wrongly) of an output type, plus a default value that
    reaches that field: reported, never raised."""
    lits = ["{c: {x: 1}}", "{c: 1}", "{c: null}", "{c: [{x: 1}]}", "{b: [{c: {x: 1}}]}", "{a: 1}"]
    lit = lits[forked(li, 0, len(lits))]
    fk = ["Other", "[Other]", "Other!", "U", "Node"][forked(field_kind, 0, 5)]
    sdl = BASE.replace("b: [In!] c: In2 }", "b: [In!] c: " + fk + " }").replace("list(i: In = {a: 1})", "list(i: In = " + lit + ")")
    return verdict(check_schema(sdl, True, bool(route)))


BOUNDS = {
    "quick": [
        f"{N_MUT} single mutations of a 14-definition base schema (27 rule violations, 9 legal edits as controls) and every pair of them, both SDL routes (with / without assume_valid_sdl)",
        "interface field covariance: 6x6 wrapper stacks x 3 named-type relations; argument invariance: 6x6 wrapper stacks",
        "default values: 13 argument types (incl. output types) x 14 literals; pairs of default-valued positions with the same literal (argument/argument, argument/directive argument, argument/input field); 6 nested defaults reaching an input field of 5 output-typed shapes",
        "8 schema extensions (6 introducing violations) applied to a base built with and without assume_valid",
    ],
    "thorough": ["same (the family is finite and fully explored)"],
}
ASSUMPTIONS = [
    "after the symbolic selectors are forked the schema text is concrete; building and validating it runs without opcode tracing (vf.concrete)",
    "completeness is claimed against the rules exercised by the mutation list (listed in MUTATIONS); triple mutations and programmatic-only violations (directive without locations) are outside",
    "schemas that cannot be constructed (build_schema raises GraphQLError/TypeError) are outside the claim",
]


def obligations(tier):
    B = 600 if tier == "thorough" else 150
    obs = [dict(fn="base_is_valid", cell={}, budget_s=60)]
    for m1 in range(N_MUT):
        obs.append(dict(fn="single_and_double", cell=dict(m1=m1), budget_s=B))
    obs.append(dict(fn="covariance", cell={}, budget_s=B * 2))
    obs.append(dict(fn="argument_invariance", cell={}, budget_s=B))
    for ti in range(len(DTYPES)):
        obs.append(dict(fn="default_vs_type", cell=dict(ti=ti), budget_s=B))
    for t1 in ((range(len(DTYPES))) if tier == "thorough" else (0, 2, 4)):
        obs.append(dict(fn="default_pairs", cell=dict(t1=t1), budget_s=B if tier == "thorough" else 100, expect_confirm=tier == "thorough"))
    obs.append(dict(fn="extended_schema_is_validated", cell={}, budget_s=B))
    obs.append(dict(fn="nested_default_into_output_type", cell={}, budget_s=B))
    return obs


def corpus():
    yield "base_is_valid", {}, dict(route=False)
    yield "base_is_valid", {}, dict(route=True)
    for m1 in range(N_MUT):
        yield "single_and_double", dict(m1=m1), dict(m2=m1, route=False)
    yield "covariance", {}, dict(wa=1, wb=0, named=0, route=False)
    yield "covariance", {}, dict(wa=0, wb=1, named=1, route=False)
    yield "argument_invariance", {}, dict(wa=2, wb=2, route=False)
    yield "default_vs_type", dict(ti=0), dict(li=0, route=False)
    yield "default_vs_type", dict(ti=6), dict(li=0, route=True)
    yield "default_pairs", dict(t1=0), dict(t2=1, li=2, where=0)
    yield "default_pairs", dict(t1=2), dict(t2=0, li=3, where=2)
    for e in range(len(EXTENSIONS)):
        yield "extended_schema_is_validated", {}, dict(e=e, base_assumed_valid=True, how=0)
        yield "extended_schema_is_validated", {}, dict(e=e, base_assumed_valid=False, how=1)
