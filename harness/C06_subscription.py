"""C06 (subscriptions): closing the response stream after k responses never hangs or leaks.

The consumer pulls k responses and then closes the stream (or the source fails / ends); the source
is an async generator or a hand-written async iterator that counts `__anext__` and `aclose()`
calls.  Which events arrive, where the consumer stops, and the completion order of the nested
awaitable resolver are solver-forked; the run itself is concrete on the deterministic loop."""
from __future__ import annotations

from vf import concrete, forked, note, verdict
from vf import stubs
from vf.detloop import DetLoop, Hang, Scheduler

import graphql.type.scalars as scalars
import graphql.type.definition as definition
import graphql.execution.executor as executor
import graphql.execution.execute as execute_mod
from graphql import ExecutionResult, build_schema, subscribe

from harness.C07_subscribe import DOCS, ROOT_VALUE, SDL, Boom, event_payload

stubs.const_inspect(scalars, definition, executor, execute_mod)


class Counting:
    """A hand-written async iterator over an async generator; counts pulls and closes."""

    def __init__(self, gen, has_aclose, aclose_raises):
        self.gen = gen
        self.pulls = 0
        self.closed = 0
        self._has = has_aclose
        self._raises = aclose_raises

    def __aiter__(self):
        return self

    async def __anext__(self):
        self.pulls += 1
        return await self.gen.__anext__()

    def __getattr__(self, name):
        if name == "aclose" and self._has:
            async def aclose():
                self.closed += 1
                await self.gen.aclose()
                if self._raises:
                    raise Boom("close failed")
            return aclose
        raise AttributeError(name)


def _run(doc, events, fail_at, source_kind, name_async, choices, stop_after, pull_after_close):
    schema = build_schema(SDL)
    loop = DetLoop()
    sched = Scheduler(loop, choices)
    state = {"started": 0, "finalised": 0, "source": None, "inflight": 0}

    async def source():
        state["started"] += 1
        try:
            for k, ev in enumerate(events):
                if fail_at == k:
                    raise Boom("source failed")
                yield await sched.future(ev, None, "event" + str(k))
        finally:
            state["finalised"] += 1

    def subscribe_fn(_root, _info, **_args):
        g = source()
        if source_kind == 0:
            state["source"] = g
            return g
        c = Counting(g, source_kind >= 2, source_kind == 3)
        state["source"] = c
        return c

    sub = schema.subscription_type
    for fname in ("msgs", "count"):
        sub.fields[fname].subscribe = subscribe_fn
        sub.fields[fname].resolve = lambda ev, _info, fname=fname, **_a: (ev or {}).get(fname) if isinstance(ev, dict) or ev is None else None

    def name_resolver(src, _info):
        v = src.get("name")
        if name_async:
            async def later():
                state["inflight"] += 1
                try:
                    return await sched.future(v, None, "name")
                finally:
                    state["inflight"] -= 1
            return later()
        return v
    schema.get_type("User").fields["name"].resolve = name_resolver

    responses = 0
    with loop:
        try:
            stream, exc = sched.drive(subscribe(schema, DOCS[doc], ROOT_VALUE))
            if exc is not None or isinstance(stream, ExecutionResult):
                return (False, "subscription could not be created")
            ended = False
            while True:
                if responses >= stop_after:
                    break
                r, exc = sched.drive(stream.__anext__())
                if exc is not None:
                    ended = True
                    if not isinstance(exc, (StopAsyncIteration, Boom)):
                        return (False, "unexpected exception from the response stream")
                    break
                responses += 1
            r, exc = sched.drive(stream.aclose())
            if exc is not None and not (source_kind == 3 and isinstance(exc, Boom)):
                # (passing a failure of the source's own aclose() on to the consumer would be a release, too)
                return (False, "aclose() of the response stream raised")
            if pull_after_close:
                r, exc = sched.drive(stream.__anext__())
                if not isinstance(exc, StopAsyncIteration):
                    return (False, "a closed response stream yielded again")
            loop.run_until_idle()
        except Hang:
            return (False, "the awaiting caller is never released")
        leftover = state["inflight"]
        sched.drain()
    if loop._ready or loop.pending_tasks() or leftover or state["inflight"]:
        return (False, "not quiescent: pending tasks / resolver coroutines in flight")
    if loop.exceptions:
        return (False, "unhandled exception reported to the loop")
    # (a hand-written source without aclose() cannot be closed by anybody: its inner generator is the harness's own business)
    if source_kind != 1 and state["started"] != state["finalised"]:
        return (False, "started source generator not finalised exactly once")
    src = state["source"]
    if isinstance(src, Counting) and src._has:
        if src.closed > 1:
            return (False, "source async iterator closed more than once")
        if src.pulls > 0 and src.closed != 1:
            return (False, "source async iterator started but not closed exactly once")
    return (True, "")


def subscription_stop(k0: int, k1: int, k2: int, fail_at: int, stop_after: int, again: bool, c0: int, c1: int, *,
                      doc: int, source_kind: int, name_async: bool) -> bool:
    """For every event sequence (0..3 events of 6 payload kinds), every stop point (close after
    0..3 responses, or run into the end / failure of the source) the caller is released, nothing
    stays pending, a started source is closed exactly once, and a closed stream stays closed."""
    kinds = [forked(k0, 0, 6), forked(k1, 0, 6), forked(k2, 0, 6)]
    fail_at = forked(fail_at, -1, 4)
    sa = forked(stop_after, 0, 5)
    events = [event_payload(k, 5) for k in kinds]
    r = concrete(_run, doc, events, fail_at, source_kind, name_async, [c0, c1], sa, True if again else False)
    if not r[0]:
        note(r[1])
    return verdict(r[0])


BOUNDS = {
    "quick": ["subscriptions: 3 documents x source kind (async generator / hand-written iterator without aclose / with aclose / with failing aclose) x sync or awaitable nested resolver; 3 events of 6 symbolic payload kinds, source failure at position 0..3 or none, consumer closes after 0..4 responses, pulls again after closing or not, 2 scheduler decisions"],
    "thorough": ["same cells, budget sized to exhaust"],
}
ASSUMPTIONS = ["a source counts as started once __anext__ was called on it; closing a never-started source is allowed but not required",
               "closing the response stream while one of its own __anext__ calls is still pending is outside (async generators reject it)"]


def obligations(tier):
    th = tier == "thorough"
    obs = []
    for doc in range(3):
        for sk in range(4):
            for na in (False, True):
                if doc == 1 and na:
                    continue
                obs.append(dict(fn="subscription_stop", cell=dict(doc=doc, source_kind=sk, name_async=na), budget_s=900 if th else 25, expect_confirm=th))
    return obs


def corpus():
    base = dict(k0=0, k1=1, k2=2, fail_at=-1, stop_after=1, again=True, c0=0, c1=0)
    for doc in range(3):
        for sk in range(4):
            cell = dict(doc=doc, source_kind=sk, name_async=doc != 1)
            yield "subscription_stop", cell, dict(base)
            yield "subscription_stop", cell, dict(base, stop_after=0)
            yield "subscription_stop", cell, dict(base, stop_after=4, again=False)
            yield "subscription_stop", cell, dict(base, fail_at=1, stop_after=3)
            yield "subscription_stop", cell, dict(base, k0=2, k1=3, stop_after=2, c0=1)
