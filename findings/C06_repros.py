"""Stand-alone reproductions (plain asyncio, public API only) of the C06 findings recorded in
/verif/known_findings.json.  Run:  PYTHONPATH=/repo/src /venv/bin/python /verif/findings/C06_repros.py
Each case prints what the property demands and what the library does."""
import asyncio

from graphql import build_schema, parse
from graphql.execution import ExecutionHooks, experimental_execute_incrementally
from graphql.pyutils import AbortController

SDL = "type Hero { name: String slow: String friends: [Hero] } type Query { hero: Hero }"


def make(schema_slow_delay=0.01, raising_source=False, separate=None):
    schema = build_schema(SDL)
    state = {"hook": 0, "gen_started": 0, "gen_closed": 0, "inflight": 0}

    async def slow(*_):
        state["inflight"] += 1
        try:
            await asyncio.sleep(schema_slow_delay)
            return "s"
        finally:
            state["inflight"] -= 1

    async def friends(*_):
        state["gen_started"] += 1
        try:
            for i in range(3):
                await asyncio.sleep(0.001)
                if raising_source and i == 1:
                    raise RuntimeError("source failed")
                yield {"name": "f" + str(i), "slow": slow}
        finally:
            state["gen_closed"] += 1

    schema.type_map["Hero"].fields["slow"].resolve = lambda src, info: slow()
    schema.type_map["Hero"].fields["friends"].resolve = lambda src, info: friends()
    root = {"hero": {"name": "luke"}}

    def hook(_info):
        state["hook"] += 1
        state["inflight_at_hook"] = state["inflight"]

    return schema, root, state, ExecutionHooks(async_work_finished=hook)


async def case_aclose_before_first_anext():
    schema, root, state, hooks = make()
    doc = parse('{ hero { name ... @defer { slow } friends @stream(initialCount: 0) { name } } }')
    res = experimental_execute_incrementally(schema, doc, root, hooks=hooks)
    if asyncio.iscoroutine(res):
        res = await res
    await res.subsequent_results.aclose()  # consumer stops before the first subsequent payload
    await asyncio.sleep(0.1)
    print("aclose before first payload: hook calls =", state["hook"], "(property: exactly 1); source started/closed =", state["gen_started"], state["gen_closed"])


async def case_abort_during_initial_execution():
    schema, root, state, hooks = make(schema_slow_delay=0.05)
    doc = parse('{ hero { name slow ... @defer { friends { name } } } }')
    controller = AbortController()
    coro = experimental_execute_incrementally(schema, doc, root, hooks=hooks, abort_signal=controller.signal)
    task = asyncio.ensure_future(coro)
    await asyncio.sleep(0.01)
    controller.abort(RuntimeError("stop"))
    try:
        await task
        outcome = "returned"
    except Exception as e:  # noqa: BLE001
        outcome = "raised " + type(e).__name__
    await asyncio.sleep(0.2)
    print("abort during initial execution: caller", outcome, "; hook calls =", state["hook"], "(property: exactly 1), resolver coroutines in flight when it fired =", state.get("inflight_at_hook"))


async def case_source_raises_with_early_execution():
    schema, root, state, hooks = make(raising_source=True)
    doc = parse('{ hero { name friends @stream(initialCount: 0) { name slow } } }')
    res = experimental_execute_incrementally(schema, doc, root, hooks=hooks, enable_early_execution=True)
    if asyncio.iscoroutine(res):
        res = await res

    async def consume():
        out = []
        async for p in res.subsequent_results:
            out.append(p.formatted)
        return out
    try:
        out = await asyncio.wait_for(consume(), 2.0)
        print("source raises with early execution: consumer finished with", len(out), "payloads; hook calls =", state["hook"])
    except asyncio.TimeoutError:
        print("source raises with early execution: consumer HANGS (no payload, no end) -- property: released promptly; hook calls =", state["hook"])


async def main():
    await case_aclose_before_first_anext()
    await case_abort_during_initial_execution()
    await case_source_raises_with_early_execution()


asyncio.run(main())


async def case_aclose_with_configured_abort_signal():
    for configured in (False, True):
        schema, root, state, hooks = make()
        doc = parse('{ hero { name friends @stream(initialCount: 0) { name } } }')
        kw = {"abort_signal": AbortController().signal} if configured else {}
        res = experimental_execute_incrementally(schema, doc, root, hooks=hooks, **kw)
        if asyncio.iscoroutine(res):
            res = await res
        it = res.subsequent_results
        await it.__anext__()
        await it.aclose()  # consumer stops after the first payload
        await asyncio.sleep(0.1)
        print("aclose after 1 payload, abort signal configured (never fired) =", configured, ": source started/closed =",
              state["gen_started"], state["gen_closed"], "(property: closed exactly once)")


asyncio.run(case_aclose_with_configured_abort_signal())


async def case_cancelled_list_completion_leaves_custom_iterator_open():
    """A list field served by an AsyncIterable whose iterator is a separate object, completed
    while a sibling non-null field fails asynchronously (the parent is nulled and the list
    completion is cancelled).  With an abort signal configured the iterator is never closed."""
    from graphql import execute

    for configured in (False, True):
        schema = build_schema("type Hero { nn: String! friends: [Hero] name: String } type Query { hero: Hero }")
        state = {"started": 0, "closed": 0}

        class Source:
            def __aiter__(self):
                return Iterator()

        class Iterator:
            def __init__(self):
                self.i = 0
                state["started"] += 1

            def __aiter__(self):
                return self

            async def __anext__(self):
                await asyncio.sleep(0.01)
                self.i += 1
                if self.i > 3:
                    raise StopAsyncIteration
                return {"name": "f"}

            async def aclose(self):
                state["closed"] += 1

        async def nn(*_):
            await asyncio.sleep(0.015)
            return None  # non-null violation -> hero becomes null, sibling work is cancelled

        schema.type_map["Hero"].fields["nn"].resolve = nn
        schema.type_map["Hero"].fields["friends"].resolve = lambda *_: Source()
        kw = {"abort_signal": AbortController().signal} if configured else {}
        result = await execute(schema, parse("{ hero { nn friends { name } } }"), {"hero": {}}, **kw)
        await asyncio.sleep(0.1)
        print("list completion cancelled by a failing sibling, abort signal configured =", configured, ": data =", result.data,
              "; custom iterator started/closed =", state["started"], state["closed"], "(property: closed exactly once)")


asyncio.run(case_cancelled_list_completion_leaves_custom_iterator_open())
