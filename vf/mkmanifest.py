"""Regenerates MANIFEST.json from vf.registry + vf.claims (python -m vf.mkmanifest)."""
from __future__ import annotations

import json
import subprocess
from pathlib import Path

from vf.claims import CLAIMS, NOT_YET
from vf.registry import PROPERTIES

ROOT = Path(__file__).resolve().parent.parent


def main():
    ids = [json.loads(l)["id"] for l in open(ROOT / "properties.jsonl")]
    checks = []
    na = []
    for pid in ids:
        if pid in PROPERTIES:
            c = CLAIMS[pid]
            checks.append({
                "property_id": pid,
                "quick_cmd": f"./check {pid} --tier quick",
                "thorough_cmd": f"./check {pid} --tier thorough",
                "evidence_file": f"/verif/evidence/{pid}.json",
                "replay_cmd_template": f"./check {pid} --replay {{path}}",
                "engine": c.get("engine", "crosshair-z3"),
                "level_claimed": {"category": "model_checking", "text": c["text"], "design_ref": c["design_ref"]},
                "level_note": c["note"],
                "technique": c["technique"],
            })
        else:
            na.append({"property_id": pid, "reason": NOT_YET.get(pid, "no solver-based check has landed for this property in this revision (see DESIGN.md for the plan)")})
    fixes = subprocess.run(["git", "-C", "/repo", "log", "--format=%h %s", "--grep=^fix:"], capture_output=True, text=True).stdout.strip().splitlines()
    m = {
        "version": 1,
        "setup_cmd": "./setup.sh",
        "hooks": {
            "guard": "GRAPHQL_CORE_VERIF",
            "enable": "no hooks are needed: harnesses import the unmodified modules from /repo/src and substitute module globals in their own process",
            "baseline_off_cmd": "cd /repo && /venv/bin/python -m pytest -ra -q -p no:cacheprovider --timeout=900 --continue-on-collection-errors",
            "source_commits": [],
            "add_only": True,
        },
        "engines": [
            {"name": "crosshair-z3", "path": "/verif/vf/xh.py", "serves_properties": sorted(PROPERTIES),
             "kind_free_text": "symbolic execution of the real graphql-core modules with CrossHair 0.0.110; z3 decides every branch; verdict = path-tree exhaustion; counterexamples replayed concretely"},
        ],
        "checks": checks,
        "not_applicable": na,
        "notes": "fix: commits in /repo (genuine defects found by these checks, see known_findings.json): " + "; ".join(fixes),
    }
    json.dump(m, open(ROOT / "MANIFEST.json", "w"), indent=1)
    print("MANIFEST.json:", len(checks), "checks,", len(na), "not claimed")


if __name__ == "__main__":
    main()
