"""Deterministic event loop + symbolic scheduler (DESIGN 2.3).

``DetLoop`` is a minimal asyncio.AbstractEventLoop: a FIFO of ready handles, no clock, no
selector, no timers (graphql-core uses none).  All of asyncio's Task / Future / Event / Queue /
gather / wait machinery runs unchanged on it, and under CrossHair it is deterministic.

``Scheduler`` owns the futures the harness hands to the library (resolver results, list items,
is_type_of results, async-iterator steps, source events) and decides -- by bounded symbolic
integers that are forked into concrete choices -- which pending future settles next.
"""
from __future__ import annotations

import asyncio
import collections
from typing import Any, Callable, List, Optional

from vf import forked, symbolic_run


class DetLoop(asyncio.AbstractEventLoop):
    def __init__(self):
        self._ready = collections.deque()
        self.exceptions: List[dict] = []
        self.tasks: List[asyncio.Task] = []
        self.futures: List[asyncio.Future] = []
        self.steps = 0
        self._asyncgens = []

    # -- AbstractEventLoop API used by asyncio internals
    def get_debug(self):
        return False

    def is_closed(self):
        return False

    def is_running(self):
        return True

    def time(self):
        return 0.0

    def call_soon(self, callback, *args, context=None):
        h = asyncio.Handle(callback, args, self, context)
        self._ready.append(h)
        return h

    call_soon_threadsafe = call_soon

    def call_later(self, *a, **k):
        raise RuntimeError("timers are outside the model (graphql-core uses none)")

    call_at = call_later

    def create_future(self):
        f = asyncio.Future(loop=self)
        self.futures.append(f)
        return f

    def create_task(self, coro, *, name=None, context=None, **_kw):
        t = asyncio.Task(coro, loop=self, name=name, context=context)
        self.tasks.append(t)
        return t

    def call_exception_handler(self, context):
        self.exceptions.append(context)

    def default_exception_handler(self, context):
        self.exceptions.append(context)

    def _timer_handle_cancelled(self, handle):
        pass

    async def shutdown_asyncgens(self):
        pass

    # -- driving
    def run_one(self) -> bool:
        if not self._ready:
            return False
        h = self._ready.popleft()
        self.steps += 1
        if not h._cancelled:
            h._run()
        return True

    def run_until_idle(self, max_steps: int = 100000) -> None:
        n = 0
        while self._ready:
            self.run_one()
            n += 1
            if n > max_steps:
                raise RuntimeError("DetLoop: step budget exceeded (livelock?)")

    def pending_tasks(self):
        return [t for t in self.tasks if not t.done()]

    def __enter__(self):
        self._prev = asyncio.events._get_running_loop()
        asyncio.events._set_running_loop(self)
        return self

    def __exit__(self, *a):
        asyncio.events._set_running_loop(self._prev)
        return False


class Scheduler:
    """Settles harness-owned futures in an order chosen by symbolic integers."""

    def __init__(self, loop: DetLoop, choices: List[Any]):
        self.loop = loop
        self.choices = list(choices)
        self.used = 0
        self.pending: List[tuple] = []  # (future, outcome thunk, label)
        self.order: List[str] = []
        self.settled = 0
        self.before_settle: Optional[Callable[["Scheduler"], None]] = None  # stop-point hook

    def future(self, value=None, exc: Optional[BaseException] = None, label: str = "") -> asyncio.Future:
        f = self.loop.create_future()
        self.pending.append((f, value, exc, label))
        return f

    def next_choice(self, n: int) -> int:
        """concrete index in [0, n) taken from the next symbolic choice (0 when exhausted)"""
        if n <= 1 or self.used >= len(self.choices):
            return 0
        c = self.choices[self.used]
        self.used += 1
        if symbolic_run():
            # the harness body runs untraced (vf.concrete); only this comparison of a symbolic
            # scheduler decision needs the solver
            from crosshair.tracers import ResumedTracing, is_tracing

            if not is_tracing():
                with ResumedTracing():
                    return self._pick(c, n)
        return self._pick(c, n)

    @staticmethod
    def _pick(c, n: int) -> int:
        for k in range(n - 1):
            if c == k:
                return k
        return n - 1

    def settle_one(self) -> bool:
        if self.before_settle is not None:
            self.before_settle(self)
            self.loop.run_until_idle()
        live = [p for p in self.pending if not p[0].done()]
        self.pending = live
        if not live:
            return False
        k = self.next_choice(len(live))
        f, value, exc, label = live[k]
        self.pending.remove(live[k])
        self.order.append(label)
        self.settled += 1
        if exc is not None:
            f.set_exception(exc)
        else:
            f.set_result(value)
        return True

    def drive(self, awaitable, max_rounds: int = 200):
        """Run ``awaitable`` to completion: loop to idle, settle one pending future, repeat.
        Returns (result, None) / (None, exception) / raises Hang if it can never complete."""
        if not hasattr(awaitable, "__await__"):
            return awaitable, None
        task = asyncio.ensure_future(awaitable, loop=self.loop)
        if task not in self.loop.tasks:
            self.loop.tasks.append(task)
        for _ in range(max_rounds):
            self.loop.run_until_idle()
            if task.done():
                break
            if not self.settle_one():
                self.loop.run_until_idle()  # (a stop-point hook may just have released it)
                if task.done():
                    break
                raise Hang("awaited result can never complete: loop idle, nothing pending")
        else:
            raise Hang("round budget exceeded")
        if task.cancelled():
            return None, asyncio.CancelledError()
        exc = task.exception()
        if exc is not None:
            return None, exc
        return task.result(), None

    def drain(self, max_rounds: int = 200) -> None:
        """Let everything else settle (used before quiescence assertions)."""
        for _ in range(max_rounds):
            self.loop.run_until_idle()
            if not self.settle_one():
                return


class Hang(Exception):
    pass
