"""E1 driver: symbolic execution of a harness (and through it the real graphql-core code)
with CrossHair's engine; z3 decides every branch.  Runs in a child process, one obligation
per process.  Adapted from ``crosshair.core.explore_paths`` so that paths, solver queries,
solver seconds, realised samples and the exhaustion verdict are all observable.
"""

from __future__ import annotations

import inspect
import os
import random
import sys
import time
import traceback
from typing import Any, Callable, Dict, List, Optional

import vf as _vf

ACTIVE = False

_solver_stats = {"queries": 0, "seconds": 0.0, "unknown": 0}


def _instrument_z3() -> None:
    import z3

    if getattr(z3.Solver, "_vf_wrapped", False):
        return
    orig = z3.Solver.check

    def check(self, *a):
        t0 = time.perf_counter()
        try:
            r = orig(self, *a)
        finally:
            _solver_stats["seconds"] += time.perf_counter() - t0
            _solver_stats["queries"] += 1
        if str(r) == "unknown":
            _solver_stats["unknown"] += 1
        return r

    z3.Solver.check = check  # type: ignore
    z3.Solver._vf_wrapped = True  # type: ignore


def _patch_crosshair_perf() -> None:
    """Semantics-preserving speed-up: indexing/slicing a symbolic str at positions whose code
    points are all concrete returns the equal concrete ``str`` instead of a symbolic wrapper
    around constants (otherwise every comparison on a *concrete* character of a template
    document costs solver queries).  A str is determined by its code points, so the value is
    identical; only its representation changes."""
    from crosshair.libimpl import builtinslib as B
    from crosshair.tracers import NoTracing, ResumedTracing
    from crosshair.core import deep_realize
    from numbers import Integral
    from crosshair.util import CrossHairInternal

    L = B.LazyIntSymbolicStr
    if getattr(L, "_vf_fast", False):
        return

    def __getitem__(self, i):
        with NoTracing():
            if not isinstance(i, (Integral, slice)):
                raise TypeError(type(i))
            i = deep_realize(i)
            with ResumedTracing():
                newcontents = self._codepoints[i]
            if not isinstance(i, slice):
                if type(newcontents) is int:
                    return chr(newcontents)
                newcontents = [newcontents]
            else:
                try:
                    n = len(newcontents)
                    if type(n) is int and n <= 4096:
                        with ResumedTracing():
                            items = [newcontents[k] for k in range(n)]
                        if all(type(x) is int for x in items):
                            return "".join(map(chr, items))
                except (Exception, CrossHairInternal):
                    pass  # length or items are symbolic: keep the symbolic representation
            return L(newcontents)

    L.__getitem__ = __getitem__
    L._vf_fast = True

    # Model bug in crosshair 0.0.110: MapBase.__ror__ = __or__, so ``concrete_dict | symbolic_map``
    # let the LEFT operand's values win.  CPython: the right operand wins.  (visit() applies
    # edits with ``{...} | dict(edits)``; without this every edit whose value is symbolic is lost
    # and the counterexample does not replay.)
    from collections.abc import Mapping
    from crosshair import simplestructs as S

    def __ror__(self, other):
        if not isinstance(other, Mapping):
            return NotImplemented
        union_map = S.ShellMutableMap(S.SimpleDict(list(other.items())))
        union_map.update(self)
        return union_map

    S.MapBase.__ror__ = __ror__


def _jsonable(v: Any, depth: int = 0) -> Any:
    if depth > 6:
        return repr(v)
    if v is None or isinstance(v, (bool, int)):
        return v
    if isinstance(v, float):
        return v if v == v and v not in (float("inf"), float("-inf")) else {"__float__": repr(v)}
    if isinstance(v, str):
        try:
            v.encode("utf-8")
            return v
        except UnicodeEncodeError:
            return {"__str__": [ord(c) for c in v]}
    if isinstance(v, bytes):
        return {"__bytes__": list(v)}
    if isinstance(v, tuple):
        return {"__tuple__": [_jsonable(x, depth + 1) for x in v]}
    if isinstance(v, list):
        return [_jsonable(x, depth + 1) for x in v]
    if isinstance(v, dict):
        return {"__dict__": [[_jsonable(k, depth + 1), _jsonable(x, depth + 1)] for k, x in v.items()]}
    return {"__repr__": repr(v)}


def from_jsonable(v: Any) -> Any:
    if isinstance(v, list):
        return [from_jsonable(x) for x in v]
    if isinstance(v, dict):
        if "__float__" in v:
            return float(v["__float__"])
        if "__str__" in v:
            return "".join(chr(c) for c in v["__str__"])
        if "__bytes__" in v:
            return bytes(v["__bytes__"])
        if "__tuple__" in v:
            return tuple(from_jsonable(x) for x in v["__tuple__"])
        if "__dict__" in v:
            return {from_jsonable(k): from_jsonable(x) for k, x in v["__dict__"]}
        if "__repr__" in v:
            raise ValueError("not replayable: " + v["__repr__"])
    return v


def explore(
    fn: Callable,
    cell: Dict[str, Any],
    *,
    budget_s: float,
    per_path_timeout: float = 20.0,
    max_paths: int = 10**9,
    seed: int = 0,
    n_samples: int = 3,
    stop_on_refute: bool = False,
) -> Dict[str, Any]:
    """Explore all paths of ``fn(**symbolic, **cell)``.

    Verdicts:  confirmed  -- path tree exhausted, every path returned True (or Skip)
               refuted    -- a path returned False / raised; realised args attached
               unknown    -- budget ended first, or some path was inconclusive
    """
    global ACTIVE
    from crosshair.core import (
        COMPOSITE_TRACER,
        ExceptionFilter,
        NoTracing,
        Patched,
        ResumedTracing,
        deep_realize,
        gen_args,
    )
    from crosshair.core_and_libs import standalone_statespace  # noqa: F401  (loads lib patches)
    from crosshair.condition_parser import condition_parser
    from crosshair.copyext import CopyMode, deepcopyext
    from crosshair.options import DEFAULT_OPTIONS
    from crosshair.statespace import (
        CallAnalysis,
        RootNode,
        StateSpace,
        StateSpaceContext,
        VerificationStatus,
    )
    from crosshair.util import IgnoreAttempt, NotDeterministic, UnexploredPath

    from vf import Skip

    _instrument_z3()
    if os.environ.get("VF_NO_PERF_PATCH") != "1":
        _patch_crosshair_perf()
    full_sig = inspect.signature(fn)
    # symbolic inputs = the positional parameters; keyword-only parameters are concrete cell
    # parameters (taken from ``cell`` or their default)
    sym_params = [p for p in full_sig.parameters.values() if p.kind is not inspect.Parameter.KEYWORD_ONLY]
    for name in cell:
        if name not in full_sig.parameters or full_sig.parameters[name].kind is not inspect.Parameter.KEYWORD_ONLY:
            raise TypeError(f"cell parameter {name} of {fn.__name__} must be keyword-only")
    for p in sym_params:
        if p.annotation is inspect.Parameter.empty:
            raise TypeError(f"symbolic parameter {p.name} of {fn.__name__} needs a type annotation")
    sig = inspect.Signature(sym_params)
    # resolve string annotations
    try:
        import typing

        hints = typing.get_type_hints(fn)
        sig = inspect.Signature([p.replace(annotation=hints.get(p.name, p.annotation)) for p in sym_params])
    except Exception:
        pass

    root = RootNode()
    root._random = random.Random(seed + 1801243388510242075)
    res: Dict[str, Any] = {
        "paths": 0, "ok": 0, "skipped": 0, "unknown_paths": 0, "refuted": 0,
        "exhausted": False, "samples": [], "counterexamples": [], "unknown_reasons": {},
        "nondeterministic": 0,
    }
    reasons_seen: Dict[tuple, int] = {}
    t_start = time.process_time()
    w_start = time.time()
    ACTIVE = True
    try:
        while res["paths"] < max_paths:
            itr_start = time.process_time()
            if itr_start - t_start > budget_s:
                break
            space = StateSpace(
                execution_deadline=itr_start + per_path_timeout,
                model_check_timeout=per_path_timeout / 2,
                search_root=root,
            )
            res["paths"] += 1
            status: Optional[VerificationStatus]
            breakout = False
            with condition_parser(DEFAULT_OPTIONS.analysis_kind), Patched(), COMPOSITE_TRACER, NoTracing(), StateSpaceContext(space):
                try:
                    pre_args = gen_args(sig)
                    args = deepcopyext(pre_args, CopyMode.REGULAR, {})
                    del _vf.NOTES[:]  # reasons noted by the harness belong to one path
                    ret: Any = None
                    skipped = False
                    user_exc = None
                    try:
                        with ExceptionFilter() as efilter, ResumedTracing():
                            ret = fn(*args.args, **args.kwargs, **cell)
                    except Skip:
                        skipped = True
                    if not skipped and efilter.ignore:
                        skipped = True
                    if not skipped and efilter.user_exc:
                        if isinstance(efilter.user_exc[0], NotDeterministic):
                            raise NotDeterministic
                        user_exc = efilter.user_exc
                    if skipped:
                        res["skipped"] += 1
                        status = None
                    else:
                        with ResumedTracing():
                            good = user_exc is None and bool(ret)
                        want_sample = (not good) or len(res["samples"]) < n_samples
                        if want_sample:
                            with ResumedTracing():
                                space.detach_path()
                            with NoTracing():
                                realised = deep_realize(pre_args)
                            jargs = {k: _jsonable(v) for k, v in realised.arguments.items()}
                        if good:
                            res["ok"] += 1
                            status = VerificationStatus.CONFIRMED
                            if want_sample:
                                res["samples"].append(jargs)
                        else:
                            res["refuted"] += 1
                            status = VerificationStatus.REFUTED
                            ce = {"args": jargs}
                            if user_exc is not None:
                                ce["exception"] = repr(user_exc[0])[:500]
                                ce["traceback"] = "".join(user_exc[1].format()[-6:])[-3000:]
                            # keep exploring after a counterexample (it may be spurious and is
                            # replayed by the parent anyway); stop after a handful.  When the harness
                            # notes *why* a path failed, counterexamples are kept per distinct reason
                            # (two each, ten in all), so that a cell in which a recorded known finding
                            # fails on many paths cannot crowd out a different failure of the property.
                            reason = tuple(str(x) for x in _vf.NOTES)
                            seen = reasons_seen.get(reason, 0)
                            reasons_seen[reason] = seen + 1
                            if not reason:
                                res["counterexamples"].append(ce)
                                breakout = stop_on_refute or len(res["counterexamples"]) >= 4
                            else:
                                ce["reason"] = list(reason)
                                if seen < 2:
                                    res["counterexamples"].append(ce)
                                breakout = stop_on_refute or len(res["counterexamples"]) >= 10
                except IgnoreAttempt:
                    res["skipped"] += 1
                    status = None
                except NotDeterministic:
                    res["nondeterministic"] += 1
                    res["unknown_paths"] += 1
                    status = VerificationStatus.UNKNOWN
                    res["unknown_reasons"]["NotDeterministic"] = res["unknown_reasons"].get("NotDeterministic", 0) + 1
                except UnexploredPath as e:
                    res["unknown_paths"] += 1
                    status = VerificationStatus.UNKNOWN
                    key = type(e).__name__
                    if len(res["unknown_reasons"]) < 8:
                        key = key + ":" + (str(e)[:120] if str(e) else "")
                    res["unknown_reasons"][key] = res["unknown_reasons"].get(key, 0) + 1
                _analysis, exhausted = space.bubble_status(CallAnalysis(status))
            if breakout:
                break
            if exhausted:
                res["exhausted"] = True
                break
            if res["nondeterministic"] > 3:
                break
    finally:
        ACTIVE = False
    res["cpu_s"] = round(time.process_time() - t_start, 3)
    res["wall_s"] = round(time.time() - w_start, 3)
    res["solver_queries"] = _solver_stats["queries"]
    res["solver_seconds"] = round(_solver_stats["seconds"], 3)
    res["solver_unknown"] = _solver_stats["unknown"]
    if res["refuted"]:
        res["verdict"] = "refuted"
    elif res["exhausted"] and res["unknown_paths"] == 0:
        res["verdict"] = "confirmed"
    else:
        res["verdict"] = "unknown"
    return res
