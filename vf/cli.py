from __future__ import annotations

import argparse
import json
import os
import sys

from vf.registry import PROPERTIES


def main() -> int:
    ap = argparse.ArgumentParser()
    ap.add_argument("prop")
    ap.add_argument("--tier", default=os.environ.get("VERIF_TIER", "quick"), choices=["quick", "thorough"])
    ap.add_argument("--replay")
    a = ap.parse_args()
    seed = int(os.environ.get("VERIF_SEED", "0") or 0)
    if a.replay:
        from vf.run import replay_concrete

        p = json.load(open(a.replay))
        rep = replay_concrete(p["module"], p["function"], p.get("cell", {}), p["args"])
        print(json.dumps(rep))
        if rep.get("outcome") == "violation":
            print(f"VIOLATION property={a.prop} replay={a.replay}")
            return 1
        return 0 if rep.get("outcome") in ("ok", "skip") else 3
    if a.prop not in PROPERTIES:
        print(f"unknown or unclaimed property {a.prop}")
        return 3
    from vf.run import run_property

    return run_property(a.prop, PROPERTIES[a.prop], a.tier, seed)


if __name__ == "__main__":
    sys.exit(main())
