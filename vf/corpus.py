"""Concrete validation of a harness module (oracles vs. inputs whose expected behaviour the
repository's own tests pin) + listing of its obligations.  Also records which graphql-core
functions the harness bodies actually enter (-> evidence.functions_encoded).
Usage: python -m vf.corpus <harness module> <tier>"""
from __future__ import annotations

import importlib
import json
import sys
import traceback


def main() -> int:
    from vf import Skip

    sys.setrecursionlimit(10000)
    mname, tier = sys.argv[1], sys.argv[2]
    mod = importlib.import_module(mname)
    entered = set()
    import os

    SRC = os.environ.get("VF_REPO", "/repo") + "/src/"

    def prof(frame, event, arg):
        if event == "call":
            co = frame.f_code
            fn = co.co_filename
            if fn.startswith(SRC + "graphql/"):
                entered.add(fn[len(SRC):-3].replace("/", ".") + "." + co.co_qualname)

    failures = []
    violated = []
    skipped = 0
    cases = 0
    corpus = list(mod.corpus()) if hasattr(mod, "corpus") else []
    sys.setprofile(prof)
    try:
        for fn_name, cell, args in corpus:
            cases += 1
            try:
                ok = getattr(mod, fn_name)(**args, **cell)
                if not ok:
                    violated.append({"function": fn_name, "cell": cell, "args": args})
            except Skip:
                skipped += 1  # outside the harness precondition: not a case
            except Exception:  # noqa: BLE001
                failures.append(f"{fn_name}{args!r} cell={cell!r} raised: {traceback.format_exc()[-1500:]}")
    finally:
        sys.setprofile(None)
    obs = mod.obligations(tier)
    out = {
        "cases": cases - skipped, "failures": failures, "violated": violated, "functions": sorted(entered), "obligations": obs,
        "assumptions": list(getattr(mod, "ASSUMPTIONS", [])), "bounds": list(getattr(mod, "BOUNDS", {}).get(tier, [])) if isinstance(getattr(mod, "BOUNDS", None), dict) else list(getattr(mod, "BOUNDS", [])),
    }
    print("CORPUS-RESULT " + json.dumps(out))
    return 0


if __name__ == "__main__":
    sys.exit(main())
