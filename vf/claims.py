"""Per-property claim texts for MANIFEST.json."""
_NOTE = ("Trusted: CrossHair's models of Python built-ins and z3 for 'holds' verdicts (never for violations: every "
         "counterexample is replayed concretely on the real code without stubs); the short reference oracle under "
         "/verif/harness, validated on every run against inputs pinned by the repo's tests. Claim is bounded: see "
         "evidence.coverage.bounds; anything beyond those bounds is outside the claim.")

_TECH = "symbolic execution of the real code (CrossHair) with z3 deciding every branch; bounded exhaustive path-tree verdict; differential oracle; counterexamples replayed concretely"


def _c(text, ref):
    return {"text": text, "design_ref": ref, "note": _NOTE, "technique": _TECH}


CLAIMS = {
    "C19": _c("Bounded symbolic model checking of extend_schema / build_schema / lexicographic_sort_schema / find_schema_changes: a "
              "base SDL with every single piece and every pair (both orders) of 16 extension pieces, definitions moved between base "
              "and extension under three definition orders, no-op extension, self-comparison and sorting on the 256 family schemas, "
              "25 single edits judged through three routes for the second schema, and the total-order laws of the natural sort key "
              "on symbolic strings. Assertions: extend == build (printed form and no detected changes), original untouched, no-op "
              "returns the original, sort only reorders and is idempotent, reported changes are real.", "DESIGN.md section 7, C19"),
    "C18": _c("Bounded symbolic model checking of get_introspection_query / introspection execution / build_client_schema over two "
              "schema families (256 SDL variants, 64 programmatic variants with adversarial strings and Python-valued defaults): "
              "every one of the 128 option combinations (solver-forked mask) must validate, execute without errors and equal the "
              "full-options result minus exactly what the switched-off options omit (projection oracle written from the options' "
              "documented meaning); the client schema built from the full result prints identically, shows no differences, "
              "introspects to the same result, and __type(name:) lookups agree with the type list.", "DESIGN.md section 7, C18"),
    "C17": _c("Bounded symbolic model checking of print_schema -> build_schema: description and deprecation-reason text as symbolic "
              "strings over all Unicode scalar values (0..2 code points, 3 in thorough) in five positions through the real printer, "
              "lexer and schema builder; all 512 combinations of 9 optional schema parts; a programmatic schema with 20 adversarial "
              "strings x 6 reasons x 4 default-value shapes (Python values incl. explicit None and the Int minimum). Assertions: "
              "Default value text: every string of 0..3 symbols of a 15-symbol alphabet as ID / String default of an argument or input "
              "field, compared through the argument values a resolver receives from the original and the rebuilt schema. "
              "the rebuilt schema is valid, prints identically, shows no differences either way and keeps the order.",
              "DESIGN.md section 7, C17"),
    "C12": _c("Bounded symbolic model checking of the real validate(): 20 documents (valid, near-valid, ill-typed) x every pair of the "
              "specified rules in both orders, all rules vs the union of the singletons, every all-but-one subset, every rotation "
              "of the rule list, repetition and non-mutation of document and schema, four layout rewrites (reprint, strip, added "
              "ignored material, added descriptions), max_errors 0..11, and history independence (interleaved validations of other "
              "documents and of the same text against another schema). Rule and document indices are solver-forked; the family is "
              "finite and explored exhaustively.", "DESIGN.md section 7, C12"),
    "C13": _c("Bounded symbolic model checking of validate() + get_variable_values() + execute_sync() composed: document families "
              "whose holes are solver-forked indices (12 variable types x 6 defaults x 15 usage positions x 11 runtime values; 15 "
              "literals x 15 positions; 12 x 13 x 7 selections on 5 kinds of parent). Whenever the real validation and variable "
              "coercion accept, execution over conforming data (incl. the Int extremes) must report no errors and produce the "
              "shape the specification oracle predicts; the one run-time case the specification allows is recognised and exempted. "
              "Plus allowed_variable_usage vs IsVariableUsageAllowed on all wrapper pairs, and attributability of errors with "
              "OneOf: 7 variable types x 5 defaults x 16 uses in and around OneOf literals x 9 runtime values. "
              "corrupted data.", "DESIGN.md section 7, C13"),
    "C06": _c("Bounded symbolic model checking of the real incremental executor / publisher / work queue / stream item queue on a "
              "deterministic event loop with the stop point as a solver variable: no stop, aclose() of the payload stream after "
              "0..3 payloads, abort signal (three kinds of reason) before the 0..5th settlement, source iterator raising at item "
              "0..2, resolver errors; over 8 templates (17 in thorough) plus 4 serially executed mutation templates with their own obligation, 4 list-source kinds, early execution on/off, symbolic "
              "directive flags, sync/awaitable positions and completion order. Assertions: the caller is released, the loop is "
              "quiescent, every started source is closed exactly once, the work-finished hook fires exactly once after all "
              "resolver coroutines settled. Eleven genuine defect classes found this way are recorded in known_findings.json "
              "(each with the failing condition; three with stand-alone asyncio reproductions) and reported as KNOWN-FINDING.",
              "DESIGN.md section 7, C06"),
    "C04": _c("Bounded symbolic model checking of the real experimental_execute_incrementally on a deterministic event loop: 12 "
              "request templates with @defer/@stream (nested, overlapping at different depths, inside streamed items, shared "
              "execution groups, fragments deferred and plain, errors) whose directive `if` values, sync/awaitable resolver "
              "positions, consumer timing and completion order (scheduler decisions) are symbolic. The payloads are applied to the "
              "initial result exactly as the delivery format prescribes and compared with the same operation executed with the "
              "(16 templates since round 3, incl. per-list-item defers below an outer defer.) Unit obligation: build_execution_plan vs "
              "the specification's BuildExecutionPlan on all forests of 3 identity-compared defer usages x 12 occurrence patterns per key x 6 parent sets. "
              "directives disabled (error-free: equality; otherwise refinement of the non-propagating reference).",
              "DESIGN.md section 7, C04"),
    "C05": _c("Same executions as C04, judged by a delivery-protocol validator: every id announced once before use and never "
              "reused, every incremental entry targets a pending id and an existing object or list, every announced id completed "
              "exactly once, no nested fragment announced while its enclosing announced fragment is pending, stream items in order "
              "without gaps, hasNext true except on the last payload and nothing after it. Plus a unit obligation on WorkQueue "
              "alone over symbolic work graphs (forests of 3 groups, tasks in any antichain of groups, 4 outcomes, settlement order).",
              "DESIGN.md section 7, C05"),
    "C07": _c("Bounded symbolic model checking of the real subscribe() / map_source_to_response_event on a deterministic event loop: "
              "0..3 source events with solver-chosen payload kinds (incl. payloads causing field errors and the event None), source "
              "failure at any position, four kinds of source iterator, argument via variable, optional awaitable nested resolver "
              "with symbolic completion decisions, and 7 ways of failing source creation. Assertions: exactly one response per "
              "event, in order, each equal to the specification oracle's execution with the event as root value; failures surface "
              "after earlier responses; a creation failure is a single errors-only result; nothing is left pending.",
              "DESIGN.md section 7, C07"),
    "C03": _c("Bounded symbolic model checking of the real asynchronous executor on a deterministic event loop (vf.detloop): a "
              "symbolic bit per resolver position chooses value vs awaitable (also list items, is_type_of / resolve_type results and "
              "an async-generator-backed list), and the completion order of the pending awaitables is chosen by symbolic scheduler "
              "decisions that the solver forks. Assertions: data and the set of nulled positions equal those of synchronous "
              "execution, the response is well formed, nothing started by the execution is left pending, and top-level mutation "
              "fields never start while anything started by an earlier one is still in flight.", "DESIGN.md section 7, C03"),
    "C02": _c("Bounded symbolic model checking of the real execute_sync against a direct transcription of the specification's "
              "execution algorithm (CollectFields, ExecuteSelectionSet, ExecuteField, CoerceArgumentValues, CompleteValue with "
              "non-null propagation, ResolveAbstractType), both run on the same symbolic inputs inside one path: request templates "
              "whose @skip/@include variables, variable values and data-graph leaves are symbolic and whose list shapes and raising "
              "resolver are cell parameters. Assertions: same keys in the same order, same values and nulls, same error paths, "
              "resolvers called with exactly the coerced arguments, and history independence on shared schema/document objects.",
              "DESIGN.md section 7, C02"),
    "C20": _c("Bounded symbolic model checking of the real build_schema / validate_schema / graphql_sync on a schema family with "
              "known ground truth: 36 single edits of a 14-definition base schema (27 rule violations + 9 legal controls) and every "
              "pair of them under both SDL routes, all 6x6 wrapper stacks for interface field covariance and argument invariance, "
              "13 types x 14 default literals (and pairs of positions sharing a literal), nested defaults reaching non-input types, "
              "and extensions of assumed-valid bases. Assertions: validate_schema never raises, reports errors iff a rule is "
              "violated, is stable on repetition, and a request returns exactly those errors without executing.",
              "DESIGN.md section 7, C20"),
    "C14": _c("Bounded symbolic model checking of the real OverlappingFieldsCanBeMergedRule against a direct transcription of the "
              "specification's FieldsInSetCanMerge / SameResponseShape over fragment-expanded selection sets: 8 document structures "
              "(exclusive and non-exclusive parents, spreads, the same fragment reached both ways, mutual recursion, 3-cycles, "
              "unions) with three symbolic field holes and a symbolic placement order; plus unit models of PairSet, OrderedPairSet "
              "and do_types_conflict. Assertion: conflict reported iff the specification finds one, and no RecursionError.",
              "DESIGN.md section 7, C14"),
    "C15": dict(_c("Bounded symbolic model checking of the real coerce_input_value / validate_input_value / value_to_literal / "
              "coerce_input_literal / validate_input_literal / ValuesOfCorrectTypeRule / get_variable_values over 14 input types, 14 "
              "value and literal shapes with symbolic leaves (unbounded ints, floats, short strings, bools, null, Undefined, "
              "variables present/absent/null): 'coercion fails iff validation reports', 'results conform to the type', 'value -> "
              "literal -> coerce is the identity', 'the literal rule accepts exactly the coercible constants', 'a provided or "
              "defaulted variable is never silently dropped'; numeric literals with exponents 0..399 / up to 400 digits stay finite. "
              "defaulted variable is never silently dropped'. The numeric leaves are decided for all doubles / 72-bit ints by E2.",
              "DESIGN.md section 7, C15"), engine="crosshair-z3 + ast2smt-z3"),
    "C16": dict(_c("Two engines. E2: the numeric kernels of graphql.type.scalars (serialize/coerce Int and Float, int_value_to_literal, "
              "serialize_id, serialize_boolean) are translated from the current source to QF_BVFP and the negated claims (32-bit "
              "range, finiteness, exact equality with the input, no silent precision loss, completeness, input round trip) are "
              "discharged by z3 for ALL doubles and all integers below 2^70 (unsat = holds). E1: CrossHair symbolic execution of "
              "the real coerce_output_value for unbounded ints, floats, bools, short strings, other value kinds, generated enums, "
              "and through execute_sync.", "DESIGN.md section 7, C16"), engine="crosshair-z3 + ast2smt-z3",
              technique="AST->SMT-LIB (QF_BVFP) translation of the real numeric kernels decided by z3 (unsat/sat), plus symbolic execution of the real code (CrossHair/z3) with path-tree exhaustion; counterexamples replayed concretely"),
    "C11": _c("Bounded symbolic model checking of the real visit()/ParallelVisitor/TypeInfoVisitor against a recursive reference "
              "traversal (child order derived from source positions): scripted visitors whose decision table (which callback, "
              "which of idle/skip/break/remove/replace-by-node/replace-by-value) is symbolic, one decision on 10 trees and two "
              "decisions on small trees; assertions: identical call log (kind, key, parent, path, ancestors), identical result, "
              "input tree untouched, identity when nothing is edited, no decision makes visit() raise.", "DESIGN.md section 7, C11"),
    "C08": _c("Bounded symbolic model checking of the real printer/lexer/parser pair: print_block_string and print_string against "
              "the lexer for every string value up to the stated length over all Unicode scalar values (plain and minimized), raw "
              "block string text against the spec's BlockStringValue, programmatically built trees with arbitrary string values at "
              "nesting depth 1..3 and as descriptions, and 10 snippet templates covering every printer method with symbolic token "
              "texts in the holes; assertion: parse(print(x)) == x and print is a fixed point.", "DESIGN.md section 7, C08"),
    "C01": _c("Bounded symbolic model checking of the real lexer, schema-coordinate lexer, the five parsing entry points and "
              "graphql_sync: symbolic source text (all code points incl. lone surrogates) up to the stated lengths, escape/number/"
              "block-string templates with arbitrary tails, truncation at every point, single-character substitution by any code "
              "point, nesting depth 0..100, arbitrary variable values / operation names, 42 exotic Python values per declared variable with the real message rendering, "
              "15 exception classes with unusual special methods, and raising resolvers; the assertion is "
              "'only GraphQLSyntaxError escapes parsing; graphql_sync returns a well-formed ExecutionResult'.", "DESIGN.md section 7, C01"),
    "C09": _c("Bounded symbolic model checking of the real Lexer / parser / strip_ignored_characters against a reference tokenizer "
              "written from the lexical grammar: every scalar-value string up to the stated length for one lexer step and for the "
              "whole token stream; ignored-sequence insertion at every token boundary, single-character substitution by any code "
              "point at every position, and every token limit on a small document corpus. Cells that do not exhaust within the "
              "budget are reported as inconclusive (bug hunting only) in the evidence.", "DESIGN.md section 7, C09"),
    "C10": {
        "text": "Bounded symbolic model checking of the real Source.get_location / lexer bookkeeping / print_source_location "
                "against the specification's line/column definition, for every Unicode body up to the stated length and every "
                "offset; 'confirmed' only on exhaustion of the path tree.",
        "design_ref": "DESIGN.md section 7, C10",
        "note": _NOTE,
        "technique": "symbolic execution of the real code (CrossHair) with z3 deciding every branch; bounded exhaustive path-tree verdict; differential oracle",
    },
}
NOT_YET = {}
