"""Per-property claim texts for MANIFEST.json."""
_NOTE = ("Trusted: CrossHair's models of Python built-ins and z3 for 'holds' verdicts (never for violations: every "
         "counterexample is replayed concretely on the real code without stubs); the short reference oracle under "
         "/verif/harness, validated on every run against inputs pinned by the repo's tests. Claim is bounded: see "
         "evidence.coverage.bounds; anything beyond those bounds is outside the claim.")

CLAIMS = {
    "C10": {
        "text": "Bounded symbolic model checking of the real Source.get_location / lexer bookkeeping / print_source_location "
                "against the specification's line/column definition, for every Unicode body up to the stated length and every "
                "offset; 'confirmed' only on exhaustion of the path tree.",
        "design_ref": "DESIGN.md section 7, C10",
        "note": _NOTE,
        "technique": "symbolic execution of the real code (CrossHair) with z3 deciding every branch; bounded exhaustive path-tree verdict; differential oracle",
    },
}
NOT_YET = {}
