"""The specification's execution algorithm (sections 6.2-6.4 of the GraphQL spec), written
directly from the text: CollectFields, ExecuteSelectionSet, ExecuteField, CoerceArgumentValues,
CompleteValue (with non-null propagation), ResolveAbstractType.

Inputs: a graphql-core schema (used as a plain type table), a parsed document, the raw variable
values, a root value and ``resolvers``: {(type name, field name): fn(source, args) -> value}.
Output: (data, error paths as a sorted list of tuples, call log).

Input coercion is re-implemented here for the types of the harness schemas (Int, Float, String,
Boolean, ID, enums, lists, non-null, input objects with defaults).
"""
from __future__ import annotations

import math
from typing import Any, Dict, List, Optional, Tuple

from graphql.language import ast as A
from graphql.type import (
    is_abstract_type, is_enum_type, is_input_object_type, is_leaf_type, is_list_type, is_non_null_type, is_object_type,
)

MAXI, MINI = 2**31 - 1, -(2**31)
MISSING = object()


class FieldError(Exception):
    pass


class RequestError(Exception):
    pass


# ---- input coercion ---------------------------------------------------------------------------------
def coerce_scalar_literal(node, t):
    name = t.name
    if name == "Int":
        if isinstance(node, A.IntValueNode):
            v = int(node.value)
            if MINI <= v <= MAXI:
                return v
        raise FieldError
    if name == "Float":
        if isinstance(node, (A.IntValueNode, A.FloatValueNode)):
            return float(node.value)
        raise FieldError
    if name == "String":
        if isinstance(node, A.StringValueNode):
            return node.value
        raise FieldError
    if name == "Boolean":
        if isinstance(node, A.BooleanValueNode):
            return node.value
        raise FieldError
    if name == "ID":
        if isinstance(node, (A.StringValueNode, A.IntValueNode)):
            return node.value
        raise FieldError
    raise FieldError


def coerce_literal(node, t, variables: Dict[str, Any]):
    """-> coerced value, or MISSING for an absent variable"""
    if isinstance(node, A.VariableNode):
        name = node.name.value
        if name not in variables:
            return MISSING
        v = variables[name]
        if v is None and is_non_null_type(t):
            raise FieldError
        return v
    if is_non_null_type(t):
        if isinstance(node, A.NullValueNode):
            raise FieldError
        return coerce_literal(node, t.of_type, variables)
    if isinstance(node, A.NullValueNode):
        return None
    if is_list_type(t):
        if isinstance(node, A.ListValueNode):
            out = []
            for item in node.values:
                v = coerce_literal(item, t.of_type, variables)
                if v is MISSING:
                    if is_non_null_type(t.of_type):
                        raise FieldError
                    v = None
                out.append(v)
            return out
        v = coerce_literal(node, t.of_type, variables)
        if v is MISSING:
            raise FieldError
        return [v]
    if is_input_object_type(t):
        if not isinstance(node, A.ObjectValueNode):
            raise FieldError
        given = {f.name.value: f.value for f in node.fields}
        for k in given:
            if k not in t.fields:
                raise FieldError
        out = {}
        for fname, fdef in t.fields.items():
            v = coerce_literal(given[fname], fdef.type, variables) if fname in given else MISSING
            if v is MISSING:
                if fdef.default_value is not None and _has_default(fdef):
                    out[fname] = default_of(fdef)
                elif is_non_null_type(fdef.type):
                    raise FieldError
            else:
                out[fname] = v
        return out
    if is_enum_type(t):
        if isinstance(node, A.EnumValueNode) and node.value in t.values:
            return t.values[node.value].value
        raise FieldError
    return coerce_scalar_literal(node, t)


def _has_default(d) -> bool:
    from graphql import Undefined

    return d.default_value is not Undefined or getattr(d, "default", None) is not None


def default_of(d):
    """coerced default of an argument / input field (defaults in harness schemas are given as
    SDL literals or plain external values)"""
    from graphql import Undefined

    di = getattr(d, "default", None)
    if di is not None and getattr(di, "literal", None) is not None:
        return coerce_literal(di.literal, d.type, {})
    v = di.value if di is not None else d.default_value
    if v is Undefined:
        return MISSING
    return coerce_value(v, d.type)


def coerce_value(v, t):
    if is_non_null_type(t):
        if v is None:
            raise FieldError
        return coerce_value(v, t.of_type)
    if v is None:
        return None
    if is_list_type(t):
        if isinstance(v, list):
            return [coerce_value(x, t.of_type) for x in v]
        return [coerce_value(v, t.of_type)]
    if is_input_object_type(t):
        if not isinstance(v, dict):
            raise FieldError
        out = {}
        for k in v:
            if k not in t.fields:
                raise FieldError
        for fname, fdef in t.fields.items():
            if fname in v:
                out[fname] = coerce_value(v[fname], fdef.type)
            elif _has_default(fdef):
                out[fname] = default_of(fdef)
            elif is_non_null_type(fdef.type):
                raise FieldError
        return out
    if is_enum_type(t):
        if isinstance(v, str) and v in t.values:
            return t.values[v].value
        raise FieldError
    name = t.name
    if name == "Int":
        if isinstance(v, bool) or not isinstance(v, (int, float)):
            raise FieldError
        if isinstance(v, float) and (not math.isfinite(v) or v != int(v)):
            raise FieldError
        if not (MINI <= v <= MAXI):
            raise FieldError
        return int(v)
    if name == "Float":
        if isinstance(v, bool) or not isinstance(v, (int, float)) or not math.isfinite(v):
            raise FieldError
        return float(v)
    if name == "String":
        if not isinstance(v, str):
            raise FieldError
        return v
    if name == "Boolean":
        if not isinstance(v, bool):
            raise FieldError
        return v
    if name == "ID":
        if isinstance(v, str):
            return v
        if isinstance(v, int) and not isinstance(v, bool):
            return str(v)
        raise FieldError
    raise FieldError


def coerce_variable_values(schema, operation, raw: Dict[str, Any]) -> Dict[str, Any]:
    from graphql.utilities import type_from_ast

    out = {}
    for vd in operation.variable_definitions or ():
        name = vd.variable.name.value
        t = type_from_ast(schema, vd.type)
        if name in raw:
            try:
                out[name] = coerce_value(raw[name], t)
            except FieldError:
                raise RequestError from None
        elif vd.default_value is not None:
            try:
                out[name] = coerce_literal(vd.default_value, t, {})
            except FieldError:
                raise RequestError from None
        elif is_non_null_type(t):
            raise RequestError
    return out


# ---- output coercion ----------------------------------------------------------------------------------
def serialize_leaf(t, v):
    if is_enum_type(t):
        for name, ev in t.values.items():
            if ev.value == v:
                return name
        raise FieldError
    name = t.name
    if name == "Int":
        if isinstance(v, bool):
            return 1 if v else 0
        if isinstance(v, float):
            if not math.isfinite(v) or v != int(v):
                raise FieldError
        elif isinstance(v, str):
            try:
                v = int(v) if v else MISSING
            except ValueError:
                raise FieldError from None
            if v is MISSING:
                raise FieldError
        elif not isinstance(v, int):
            raise FieldError
        if not (MINI <= v <= MAXI):
            raise FieldError
        return int(v)
    if name == "Float":
        if isinstance(v, bool):
            return 1 if v else 0
        if isinstance(v, (int, float)):
            if not math.isfinite(v):
                raise FieldError
            return float(v)
        raise FieldError
    if name == "String":
        if isinstance(v, str):
            return v
        if isinstance(v, bool):
            return "true" if v else "false"
        if isinstance(v, int):
            return str(v)
        raise FieldError
    if name == "Boolean":
        if isinstance(v, bool):
            return v
        if isinstance(v, int):
            return v != 0
        raise FieldError
    if name == "ID":
        if isinstance(v, str):
            return v
        if isinstance(v, int) and not isinstance(v, bool):
            return str(v)
        raise FieldError
    raise FieldError


# ---- execution -----------------------------------------------------------------------------------------
class SpecExecutor:
    def __init__(self, schema, document, variables_raw, resolvers, root_value=None, operation_name=None):
        self.schema = schema
        self.fragments = {d.name.value: d for d in document.definitions if isinstance(d, A.FragmentDefinitionNode)}
        ops = [d for d in document.definitions if isinstance(d, A.OperationDefinitionNode)]
        if operation_name is None:
            if len(ops) != 1:
                raise RequestError
            self.operation = ops[0]
        else:
            sel = [o for o in ops if o.name and o.name.value == operation_name]
            if len(sel) != 1:
                raise RequestError
            self.operation = sel[0]
        self.variables = coerce_variable_values(schema, self.operation, variables_raw)
        self.resolvers = resolvers
        self.root_value = root_value
        self.errors: List[Tuple] = []
        self.calls: List[Tuple] = []

    # 6.3.2
    def directive_if(self, node, name) -> Optional[bool]:
        for d in node.directives or ():
            if d.name.value == name:
                for a in d.arguments:
                    if a.name.value == "if":
                        if isinstance(a.value, A.VariableNode):
                            return self.variables.get(a.value.name.value)
                        return a.value.value
        return None

    def collect_fields(self, object_type, selection_set, visited=None, grouped=None):
        grouped = {} if grouped is None else grouped
        visited = set() if visited is None else visited
        for sel in selection_set.selections:
            if self.directive_if(sel, "skip") is True:
                continue
            inc = self.directive_if(sel, "include")
            if inc is False:
                continue
            if isinstance(sel, A.FieldNode):
                key = (sel.alias or sel.name).value
                grouped.setdefault(key, []).append(sel)
            elif isinstance(sel, A.FragmentSpreadNode):
                name = sel.name.value
                if name in visited:
                    continue
                visited.add(name)
                frag = self.fragments.get(name)
                if frag is None or not self.applies(object_type, frag.type_condition):
                    continue
                self.collect_fields(object_type, frag.selection_set, visited, grouped)
            else:
                if sel.type_condition is not None and not self.applies(object_type, sel.type_condition):
                    continue
                self.collect_fields(object_type, sel.selection_set, visited, grouped)
        return grouped

    def applies(self, object_type, type_condition) -> bool:
        t = self.schema.get_type(type_condition.name.value)
        if t is object_type:
            return True
        if is_abstract_type(t):
            return self.schema.is_sub_type(t, object_type)
        return False

    # 6.3
    def execute_selection_set(self, selection_set_nodes, object_type, source, path):
        grouped = {}
        visited = set()
        for ss in selection_set_nodes:
            self.collect_fields(object_type, ss, visited, grouped)
        result = {}
        for key, fields in grouped.items():
            fname = fields[0].name.value
            if fname == "__typename":
                result[key] = object_type.name
                continue
            fdef = object_type.fields.get(fname)
            if fdef is None:
                continue
            result[key] = self.execute_field(object_type, source, fdef, fields, path + (key,))
        return result

    class Propagate(Exception):
        pass

    def execute_field(self, object_type, source, fdef, fields, path):
        try:
            args = self.coerce_arguments(fdef, fields[0])
            fn = self.resolvers[(object_type.name, fields[0].name.value)]
            self.calls.append((object_type.name, fields[0].name.value, tuple(sorted(args.items(), key=lambda kv: kv[0])) if args else ()))
            try:
                value = fn(source, args)
            except Exception:
                raise FieldError from None
            return self.complete_value(fdef.type, fields, value, path)
        except FieldError:
            self.errors.append(path)
            if is_non_null_type(fdef.type):
                raise SpecExecutor.Propagate from None
            return None
        except SpecExecutor.Propagate:
            if is_non_null_type(fdef.type):
                raise
            return None

    def coerce_arguments(self, fdef, field):
        given = {a.name.value: a.value for a in field.arguments or ()}
        out = {}
        for name, adef in fdef.args.items():
            t = adef.type
            has_default = _has_default(adef)
            node = given.get(name)
            if node is None:
                if has_default:
                    out[name] = default_of(adef)
                elif is_non_null_type(t):
                    raise FieldError
                continue
            if isinstance(node, A.VariableNode):
                vname = node.name.value
                if vname not in self.variables:
                    if has_default:
                        out[name] = default_of(adef)
                    elif is_non_null_type(t):
                        raise FieldError
                    continue
                v = self.variables[vname]
                if v is None and is_non_null_type(t):
                    raise FieldError
                out[name] = v
                continue
            v = coerce_literal(node, t, self.variables)
            if v is MISSING:
                raise FieldError
            out[name] = v
        return out

    # 6.4.3
    def complete_value(self, t, fields, value, path):
        if isinstance(value, Exception):
            raise FieldError
        if is_non_null_type(t):
            r = self.complete_value(t.of_type, fields, value, path)
            if r is None:
                raise FieldError
            return r
        if value is None:
            return None
        if is_list_type(t):
            if not isinstance(value, (list, tuple)):
                raise FieldError
            out = []
            for i, item in enumerate(value):
                try:
                    out.append(self.complete_value(t.of_type, fields, item, path + (i,)))
                except FieldError:
                    self.errors.append(path + (i,))
                    if is_non_null_type(t.of_type):
                        raise SpecExecutor.Propagate from None
                    out.append(None)
                except SpecExecutor.Propagate:
                    if is_non_null_type(t.of_type):
                        raise
                    out.append(None)
            return out
        if is_leaf_type(t):
            return serialize_leaf(t, value)
        if is_abstract_type(t):
            name = value.get("__typename") if isinstance(value, dict) else None
            rt = self.schema.get_type(name) if isinstance(name, str) else None
            if rt is None or not is_object_type(rt) or not self.schema.is_sub_type(t, rt):
                raise FieldError
            t = rt
        sub = [f.selection_set for f in fields if f.selection_set]
        return self.execute_selection_set(sub, t, value, path)

    def run(self):
        op = self.operation.operation.value
        root = {"query": self.schema.query_type, "mutation": self.schema.mutation_type, "subscription": self.schema.subscription_type}[op]
        try:
            data = self.execute_selection_set([self.operation.selection_set], root, self.root_value, ())
        except SpecExecutor.Propagate:
            data = None
        return data, sorted(self.errors, key=repr), self.calls


def spec_execute(schema, document, variables, resolvers, root_value=None, operation_name=None):
    """-> ("ok", data, error paths, calls) | ("request-error",)"""
    try:
        ex = SpecExecutor(schema, document, variables, resolvers, root_value, operation_name)
    except RequestError:
        return ("request-error",)
    data, errors, calls = ex.run()
    return ("ok", data, errors, calls)


def landings(data, paths):
    """The set of positions nulled by errors: for every error path, the place where its null
    lands in ``data`` after non-null propagation (an error below an already nulled ancestor --
    which a cancelled sibling may or may not get to report -- lands on that ancestor)."""
    out = set()
    for path in paths:
        cur = data
        landing = ()
        if cur is not None:
            for seg in path:
                try:
                    cur = cur[seg]
                except (KeyError, IndexError, TypeError):
                    cur = None
                landing = landing + (seg,)
                if cur is None:
                    break
        out.add(landing)
    return sorted(out, key=repr)
