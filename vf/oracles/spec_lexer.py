"""Reference tokenizer written from the GraphQL specification's lexical grammar (Oct 2021 +
the variable-width unicode escape RFC that graphql-js 17 / graphql-core 3.3 implement).

``spec_token(body, start)`` returns the first token at or after ``start`` (skipping Ignored
except comments, which this library surfaces as COMMENT tokens) as
``(kind, start, end, value)`` or ``None`` when the text at that point is not a token.
Kinds are the TokenKind *values* ('Name', 'Int', '{', '<EOF>', ...).

Deliberately written as a set of small grammar functions (no shared structure with
graphql.language.lexer).  Source text is assumed to consist of Unicode scalar values;
callers exclude surrogates.
"""

from __future__ import annotations

from typing import Optional, Tuple

PUNCT = "!$&():=@[]{|}"
HEX = "0123456789abcdefABCDEF"
DIGITS = "0123456789"
LETTERS = "abcdefghijklmnopqrstuvwxyzABCDEFGHIJKLMNOPQRSTUVWXYZ"
ESC = {'"': '"', "\\": "\\", "/": "/", "b": "\b", "f": "\f", "n": "\n", "r": "\r", "t": "\t"}


def _at(body: str, i: int) -> str:
    return body[i] if 0 <= i < len(body) else ""


def is_digit(c: str) -> bool:
    return c != "" and "0" <= c <= "9"


def is_name_start(c: str) -> bool:
    return c != "" and (("a" <= c <= "z") or ("A" <= c <= "Z") or c == "_")


def is_name_continue(c: str) -> bool:
    return c != "" and (("a" <= c <= "z") or ("A" <= c <= "Z") or ("0" <= c <= "9") or c == "_")


def skip_ignored(body: str, i: int) -> int:
    """Ignored :: UnicodeBOM | WhiteSpace | LineTerminator | Comma   (comments handled apart)."""
    n = len(body)
    while i < n and body[i] in "﻿\t ,\n\r":
        i += 1
    return i


def digits_end(body: str, i: int) -> int:
    """Digit+ starting at i; returns i if there is none."""
    n = len(body)
    while i < n and is_digit(body[i]):
        i += 1
    return i


def number(body: str, s: int) -> Optional[Tuple[str, int, int, str]]:
    i = s
    if _at(body, i) == "-":
        i += 1
    # IntegerPart :: NegativeSign? 0 | NegativeSign? NonZeroDigit Digit*
    if _at(body, i) == "0":
        i += 1
        if is_digit(_at(body, i)):
            return None
    else:
        j = digits_end(body, i)
        if j == i:
            return None
        i = j
    is_float = False
    if _at(body, i) == ".":
        j = digits_end(body, i + 1)
        if j == i + 1:
            return None
        i = j
        is_float = True
    if _at(body, i) in ("e", "E"):
        k = i + 1
        if _at(body, k) in ("+", "-"):
            k += 1
        j = digits_end(body, k)
        if j == k:
            return None
        i = j
        is_float = True
    nxt = _at(body, i)
    if nxt == "." or is_name_start(nxt) or is_digit(nxt):
        return None
    return ("Float" if is_float else "Int", s, i, body[s:i])


def block_string_value(raw: str) -> str:
    """BlockStringValue(rawValue) from the spec."""
    lines = []
    cur = ""
    i = 0
    while i < len(raw):
        c = raw[i]
        if c == "\r":
            if _at(raw, i + 1) == "\n":
                i += 1
            lines.append(cur)
            cur = ""
        elif c == "\n":
            lines.append(cur)
            cur = ""
        else:
            cur += c
        i += 1
    lines.append(cur)

    def indent_of(line: str) -> int:
        k = 0
        while k < len(line) and line[k] in " \t":
            k += 1
        return k

    common = None
    for line in lines[1:]:
        ind = indent_of(line)
        if ind < len(line) and (common is None or ind < common):
            common = ind
    if common is not None:
        lines = [lines[0]] + [line[common:] for line in lines[1:]]
    while lines and indent_of(lines[0]) == len(lines[0]):
        lines = lines[1:]
    while lines and indent_of(lines[-1]) == len(lines[-1]):
        lines = lines[:-1]
    return "\n".join(lines)


def block_string(body: str, s: int) -> Optional[Tuple[str, int, int, str]]:
    i = s + 3
    n = len(body)
    raw = ""
    while i < n:
        if body[i] == '"' and body[i + 1 : i + 3] == '""':
            return ("BlockString", s, i + 3, block_string_value(raw))
        if body[i] == "\\" and body[i + 1 : i + 4] == '"""':
            raw += '"""'
            i += 4
            continue
        raw += body[i]
        i += 1
    return None


def string(body: str, s: int) -> Optional[Tuple[str, int, int, str]]:
    i = s + 1
    n = len(body)
    out = ""
    while i < n:
        c = body[i]
        if c == '"':
            return ("String", s, i + 1, out)
        if c == "\n" or c == "\r":
            return None
        if c != "\\":
            out += c
            i += 1
            continue
        e = _at(body, i + 1)
        if e == "u":
            if _at(body, i + 2) == "{":
                j = i + 3
                while j < n and body[j] in HEX:
                    j += 1
                ndig = j - (i + 3)
                if ndig == 0 or ndig > 8 or _at(body, j) != "}":
                    return None
                cp = int(body[i + 3 : j], 16)
                if not (cp <= 0xD7FF or 0xE000 <= cp <= 0x10FFFF):
                    return None
                out += chr(cp)
                i = j + 1
                continue
            h = body[i + 2 : i + 6]
            if len(h) != 4 or not all(x in HEX for x in h):
                return None
            cp = int(h, 16)
            if 0xD800 <= cp <= 0xDBFF:
                h2 = body[i + 8 : i + 12]
                if body[i + 6 : i + 8] != "\\u" or len(h2) != 4 or not all(x in HEX for x in h2):
                    return None
                lo = int(h2, 16)
                if not (0xDC00 <= lo <= 0xDFFF):
                    return None
                out += chr(0x10000 + ((cp - 0xD800) << 10) + (lo - 0xDC00))
                i += 12
                continue
            if 0xDC00 <= cp <= 0xDFFF:
                return None
            out += chr(cp)
            i += 6
            continue
        if e != "" and e in ESC:
            out += ESC[e]
            i += 2
            continue
        return None
    return None


def spec_token(body: str, start: int) -> Optional[Tuple[str, int, int, Optional[str]]]:
    i = skip_ignored(body, start)
    n = len(body)
    if i >= n:
        return ("<EOF>", n, n, None)
    c = body[i]
    if c == "#":
        j = i + 1
        while j < n and body[j] not in "\n\r":
            j += 1
        return ("Comment", i, j, body[i + 1 : j])
    if c in PUNCT:
        return (c, i, i + 1, None)
    if c == ".":
        if body[i : i + 3] == "...":
            return ("...", i, i + 3, None)
        return None
    if is_name_start(c):
        j = i + 1
        while j < n and is_name_continue(body[j]):
            j += 1
        return ("Name", i, j, body[i:j])
    if c == "-" or is_digit(c):
        return number(body, i)
    if c == '"':
        if body[i : i + 3] == '"""':
            return block_string(body, i)
        return string(body, i)
    return None


def spec_tokens(body: str, include_comments: bool = False):
    """All tokens up to EOF, or None if the text does not lex."""
    out = []
    pos = 0
    while True:
        t = spec_token(body, pos)
        if t is None:
            return None
        if t[0] == "<EOF>":
            return out
        if include_comments or t[0] != "Comment":
            out.append(t)
        pos = t[2]


def has_surrogate(s: str) -> bool:
    for c in s:
        if "\ud800" <= c <= "\udfff":
            return True
    return False
