"""line/column as the specification defines them: only CR LF, LF, CR terminate lines."""


def spec_location(body: str, pos: int):
    line = 1
    last_start = 0
    i = 0
    while i < pos:
        c = body[i]
        if c == "\r":
            if i + 1 < len(body) and body[i + 1] == "\n":
                i += 1
            line += 1
            last_start = i + 1
        elif c == "\n":
            line += 1
            last_start = i + 1
        i += 1
    return line, pos + 1 - last_start
