"""E2: Python-AST -> SMT (QF_BVFP) translator for graphql-core's numeric kernels.

The source of each function is read from the *current* /repo tree with inspect.getsource,
parsed with ``ast`` and symbolically evaluated over typed symbolic values:

    Python float -> (_ FloatingPoint 11 53)            Python int -> (_ BitVec W) signed, W = 72
    Python bool  -> Bool                               str(int) / str(float) / messages -> opaque

The result is a list of guarded outcomes  [(path condition, Return(value) | Raise(name))].
Only a small subset of Python is understood; anything else raises ``Unencodable`` and the
obligation is reported inconclusive.  Semantics used (the trusted base of E2):

  * int(f) for finite f truncates toward zero exactly: encoded as fp.to_sbv RTZ (the harness
    bounds |f| < 2^(W-2) wherever the integer value itself is needed) and ``int(f) != f`` /
    ``f == int(f)`` as ``fp.roundToIntegral(RTZ, f) != f`` (Python compares int and float exactly,
    so the two are equal iff f is integral);
  * float(i) rounds to nearest-even (to_fp RNE); OverflowError is impossible for |i| < 2^(W-1);
  * int <-> float comparisons in Python are exact: encoded in FP when the int is a constant
    that is exactly representable, otherwise by converting the *float* to an integer bit-vector
    after establishing that it is integral and in range.
"""

from __future__ import annotations

import ast
import inspect as pyinspect
import textwrap
from dataclasses import dataclass
from typing import Any, Dict, List, Optional, Tuple

import z3

W = 72
FP = z3.Float64()
RNE, RTZ = z3.RNE(), z3.RTZ()


class Unencodable(Exception):
    pass


@dataclass
class SInt:
    t: Any  # BitVec(W)


@dataclass
class SFloat:
    t: Any  # FP


@dataclass
class SBool:
    t: Any  # z3 Bool (a Python bool *value*)


@dataclass
class Opaque:
    what: str
    arg: Any = None  # e.g. ("str", SInt)


@dataclass
class Node:
    cls: str
    fields: Dict[str, Any]


@dataclass
class Outcome:
    pc: Any
    kind: str  # "return" | "raise"
    value: Any


def bv(n: int):
    return z3.BitVecVal(n, W)


def fpconst(x: float):
    return z3.FPVal(x, FP)


def is_z3bool(x):
    return isinstance(x, z3.BoolRef)


def int_exact_in_fp(n: int) -> bool:
    try:
        return int(float(n)) == n
    except OverflowError:
        return False


class Translator:
    def __init__(self, module):
        self.module = module
        self.cache: Dict[str, ast.FunctionDef] = {}
        self.encoded: List[str] = []
        self.assumptions: List[str] = []

    def fn_ast(self, name: str) -> ast.FunctionDef:
        if name not in self.cache:
            fn = getattr(self.module, name)
            src = textwrap.dedent(pyinspect.getsource(fn))
            tree = ast.parse(src)
            self.cache[name] = tree.body[0]
            self.encoded.append(f"{self.module.__name__}.{name}")
        return self.cache[name]

    # ---- expressions -------------------------------------------------------------------------
    def truth(self, v):
        """value -> python bool or z3 Bool"""
        if isinstance(v, bool):
            return v
        if is_z3bool(v):
            return v
        if isinstance(v, SBool):
            return v.t
        if v is None:
            return False
        if isinstance(v, (Node, Opaque)):
            return True
        if isinstance(v, (int, str)):
            return bool(v)
        if isinstance(v, SInt):
            return v.t != bv(0)
        if isinstance(v, SFloat):
            return z3.Not(z3.fpIsZero(v.t))
        raise Unencodable(f"truth of {v!r}")

    def compare(self, op, a, b):
        # static
        if isinstance(a, (int, float, str)) and not isinstance(a, bool) and isinstance(b, (int, float, str)) and not isinstance(b, bool):
            return {ast.Eq: a == b, ast.NotEq: a != b, ast.Lt: a < b, ast.LtE: a <= b, ast.Gt: a > b, ast.GtE: a >= b}[type(op)]
        if isinstance(a, SBool) or isinstance(b, SBool):
            # Python bool participates in numeric comparison as 0/1
            def as_int(x):
                return SInt(z3.If(x.t, bv(1), bv(0))) if isinstance(x, SBool) else x
            return self.compare(op, as_int(a), as_int(b))
        # int <-> int
        if isinstance(a, (SInt, int)) and isinstance(b, (SInt, int)):
            x = a.t if isinstance(a, SInt) else bv(a)
            y = b.t if isinstance(b, SInt) else bv(b)
            return {ast.Eq: x == y, ast.NotEq: x != y, ast.Lt: x < y, ast.LtE: x <= y, ast.Gt: x > y, ast.GtE: x >= y}[type(op)]
        # float <-> float / const
        if isinstance(a, (SFloat, float)) and isinstance(b, (SFloat, float)):
            x = a.t if isinstance(a, SFloat) else fpconst(a)
            y = b.t if isinstance(b, SFloat) else fpconst(b)
            return self._fpcmp(op, x, y)
        # float <-> constant int (exactly representable)
        if isinstance(a, SFloat) and isinstance(b, int) and int_exact_in_fp(b):
            return self._fpcmp(op, a.t, fpconst(float(b)))
        if isinstance(b, SFloat) and isinstance(a, int) and int_exact_in_fp(a):
            return self._fpcmp(op, fpconst(float(a)), b.t)
        # float <-> symbolic int: exact comparison
        if isinstance(a, SFloat) and isinstance(b, SInt):
            return self._float_vs_int(op, a, b, flipped=False)
        if isinstance(a, SInt) and isinstance(b, SFloat):
            return self._float_vs_int(op, b, a, flipped=True)
        raise Unencodable(f"compare {a!r} {op} {b!r}")

    def _fpcmp(self, op, x, y):
        return {ast.Eq: z3.fpEQ(x, y), ast.NotEq: z3.Not(z3.fpEQ(x, y)), ast.Lt: z3.fpLT(x, y), ast.LtE: z3.fpLEQ(x, y),
                ast.Gt: z3.fpGT(x, y), ast.GtE: z3.fpGEQ(x, y)}[type(op)]

    def _float_vs_int(self, op, f: SFloat, i: SInt, flipped: bool):
        """Exact comparison of a double with a W-bit integer (only == and != are needed by the
        kernels).  f == i  iff  f is finite, integral, |f| < 2^(W-1) and to_sbv(f) == i."""
        if not isinstance(op, (ast.Eq, ast.NotEq)):
            raise Unencodable("ordered comparison float vs symbolic int")
        lim = fpconst(float(2 ** (W - 2)))
        small = z3.And(z3.fpLT(f.t, lim), z3.fpGT(f.t, z3.fpNeg(lim)))
        integral = z3.fpEQ(z3.fpRoundToIntegral(RTZ, f.t), f.t)
        finite = z3.Not(z3.Or(z3.fpIsNaN(f.t), z3.fpIsInf(f.t)))
        eq = z3.And(finite, integral, small, z3.fpToSBV(RTZ, f.t, z3.BitVecSort(W)) == i.t)
        return eq if isinstance(op, ast.Eq) else z3.Not(eq)

    def to_int(self, v):
        if isinstance(v, SInt):
            return v
        if isinstance(v, int) and not isinstance(v, bool):
            return v
        if isinstance(v, SBool):
            return SInt(z3.If(v.t, bv(1), bv(0)))
        if isinstance(v, SFloat):
            return IntOfFloat(v)
        raise Unencodable(f"int({v!r})")

    def to_float(self, v):
        if isinstance(v, SFloat):
            return v
        if isinstance(v, SInt):
            return SFloat(z3.fpSignedToFP(RNE, v.t, FP))
        if isinstance(v, IntOfFloat):
            return SFloat(z3.fpRoundToIntegral(RTZ, v.f.t))
        if isinstance(v, int):
            return float(v)
        raise Unencodable(f"float({v!r})")

    def eval(self, node, env):
        if isinstance(node, ast.Constant):
            return node.value
        if isinstance(node, ast.Name):
            if node.id in env:
                return env[node.id]
            if hasattr(self.module, node.id):
                g = getattr(self.module, node.id)
                if isinstance(g, (int, float, str)) or g is None:
                    return g
                return Opaque("global:" + node.id, g)
            if node.id in ("int", "float", "bool", "str", "ValueError", "OverflowError", "isinstance"):
                return Opaque("builtin:" + node.id)
            raise Unencodable(f"name {node.id}")
        if isinstance(node, ast.Tuple):
            return tuple(self.eval(e, env) for e in node.elts)
        if isinstance(node, ast.UnaryOp):
            v = self.eval(node.operand, env)
            if isinstance(node.op, ast.Not):
                t = self.truth(v)
                return (not t) if isinstance(t, bool) else z3.Not(t)
            if isinstance(node.op, ast.USub):
                if isinstance(v, (int, float)):
                    return -v
                if isinstance(v, SInt):
                    return SInt(-v.t)
                if isinstance(v, SFloat):
                    return SFloat(z3.fpNeg(v.t))
            raise Unencodable(ast.dump(node))
        if isinstance(node, ast.BoolOp):
            vals = [self.truth(self.eval(v, env)) for v in node.values]
            if isinstance(node.op, ast.And):
                if any(v is False for v in vals):
                    return False
                zs = [v for v in vals if v is not True]
                return True if not zs else (zs[0] if len(zs) == 1 else z3.And(*zs))
            if any(v is True for v in vals):
                return True
            zs = [v for v in vals if v is not False]
            return False if not zs else (zs[0] if len(zs) == 1 else z3.Or(*zs))
        if isinstance(node, ast.Compare):
            left = self.eval(node.left, env)
            parts = []
            for op, comp in zip(node.ops, node.comparators):
                right = self.eval(comp, env)
                parts.append(self._cmp_values(op, left, right))
                left = right
            if any(p is False for p in parts):
                return False
            zs = [p for p in parts if p is not True]
            return True if not zs else (zs[0] if len(zs) == 1 else z3.And(*zs))
        if isinstance(node, ast.BinOp) and isinstance(node.op, ast.Add):
            a, b = self.eval(node.left, env), self.eval(node.right, env)
            if isinstance(a, (str, Opaque)) or isinstance(b, (str, Opaque)):
                return Opaque("message")
            raise Unencodable("numeric +")
        if isinstance(node, ast.JoinedStr):
            return Opaque("message")
        if isinstance(node, ast.IfExp):
            c = self.truth(self.eval(node.test, env))
            a, b = self.eval(node.body, env), self.eval(node.orelse, env)
            if isinstance(c, bool):
                return a if c else b
            if isinstance(a, int) and isinstance(b, int):
                return SInt(z3.If(c, bv(a), bv(b)))
            raise Unencodable("symbolic IfExp")
        if isinstance(node, ast.Attribute) and node.attr == "__module__" and isinstance(node.value, ast.Call) \
                and isinstance(node.value.func, ast.Name) and node.value.func.id == "type":
            v = self.eval(node.value.args[0], env)
            if isinstance(v, (SInt, SFloat, SBool, IntOfFloat)):
                return "builtins"
            raise Unencodable("type(x).__module__ of non-number")
        if isinstance(node, ast.Call):
            return self.call(node, env)
        raise Unencodable(ast.dump(node)[:200])

    def _cmp_values(self, op, a, b):
        if isinstance(a, IntOfFloat) or isinstance(b, IntOfFloat):
            # int(f) <op> x : only against the same f (integrality test) or constants
            if isinstance(a, IntOfFloat) and isinstance(b, SFloat) and a.f is b or isinstance(b, IntOfFloat) and isinstance(a, SFloat) and b.f is a:
                f = a.f if isinstance(a, IntOfFloat) else b.f
                integral = z3.fpEQ(z3.fpRoundToIntegral(RTZ, f.t), f.t)  # f finite is established by the code before int(f)
                if isinstance(op, ast.Eq):
                    return integral
                if isinstance(op, ast.NotEq):
                    return z3.Not(integral)
            if isinstance(a, IntOfFloat) and isinstance(b, SInt):
                return self.compare(op, SFloat(z3.fpRoundToIntegral(RTZ, a.f.t)), b)
            if isinstance(b, IntOfFloat) and isinstance(a, SInt):
                return self.compare(op, a, SFloat(z3.fpRoundToIntegral(RTZ, b.f.t)))
            raise Unencodable("comparison with int(float)")
        if isinstance(op, (ast.Is, ast.IsNot)):
            if b is None or a is None:
                r = (a is None) == (b is None) if (a is None or b is None) and not isinstance(a, (SInt, SFloat, SBool)) else False
                return r if isinstance(op, ast.Is) else not r
            raise Unencodable("is")
        return self.compare(op, a, b)

    def call(self, node: ast.Call, env):
        fname = node.func.id if isinstance(node.func, ast.Name) else None
        args = [self.eval(a, env) for a in node.args]
        kwargs = {k.arg: self.eval(k.value, env) for k in node.keywords}
        if fname == "isinstance":
            v, types = args
            names = [t.what.split(":")[1] for t in (types if isinstance(types, tuple) else (types,))]
            if isinstance(v, SBool):
                return "bool" in names or "int" in names
            if isinstance(v, (SInt, IntOfFloat)) or (isinstance(v, int) and not isinstance(v, bool)):
                return "int" in names
            if isinstance(v, SFloat):
                return "float" in names
            if isinstance(v, str):
                return "str" in names
            if isinstance(v, Node):
                return any(n == v.cls or n in ("FloatValueNode", "IntValueNode") and v.cls == n for n in names)
            raise Unencodable(f"isinstance({v!r})")
        if fname == "isfinite":
            (v,) = args
            if isinstance(v, SFloat):
                return z3.Not(z3.Or(z3.fpIsNaN(v.t), z3.fpIsInf(v.t)))
            if isinstance(v, (SInt, SBool, int)):
                return True
            raise Unencodable("isfinite")
        if fname == "abs":
            (v,) = args
            if isinstance(v, SInt):
                return SInt(z3.If(v.t < bv(0), -v.t, v.t))
            if isinstance(v, SFloat):
                return SFloat(z3.fpAbs(v.t))
            if isinstance(v, (int, float)):
                return abs(v)
            raise Unencodable("abs")
        if fname == "int":
            return self.to_int(args[0])
        if fname == "float":
            return self.to_float(args[0])
        if fname == "str":
            return Opaque("str", args[0])
        if fname == "inspect":
            return Opaque("message")
        if fname in ("GraphQLError", "ValueError", "TypeError"):
            return Opaque("exc:" + fname)
        if fname in ("IntValueNode", "FloatValueNode", "StringValueNode", "BooleanValueNode"):
            return Node(fname, kwargs)
        if fname and hasattr(self.module, fname) and callable(getattr(self.module, fname)):
            outs = self.run(fname, args)
            return Inline(outs)
        raise Unencodable(f"call {ast.dump(node.func)}")

    # ---- statements ---------------------------------------------------------------------------
    def run(self, name: str, args: List[Any]) -> List[Outcome]:
        fn = self.fn_ast(name)
        params = [a.arg for a in fn.args.args]
        env = dict(zip(params, args))
        outs, falls = self.block(fn.body, env, z3.BoolVal(True))
        for pc, _env in falls:
            outs.append(Outcome(pc, "return", None))
        return outs

    def block(self, stmts, env, pc) -> Tuple[List[Outcome], List[Tuple[Any, dict]]]:
        outs: List[Outcome] = []
        live = [(pc, env)]
        for st in stmts:
            nxt = []
            for pc_, env_ in live:
                o, f = self.stmt(st, env_, pc_)
                outs += o
                nxt += f
            live = nxt
            if not live:
                break
        return outs, live

    def _emit(self, pc, kind, value) -> List[Outcome]:
        """Return/raise of a possibly inlined callee result."""
        if isinstance(value, Inline):
            res = []
            for o in value.outs:
                res.append(Outcome(z3.And(pc, o.pc), o.kind if kind == "return" else o.kind, o.value))
            return res
        return [Outcome(pc, kind, value)]

    def stmt(self, st, env, pc):
        if isinstance(st, ast.Expr):
            if isinstance(st.value, ast.Constant):
                return [], [(pc, env)]  # docstring
            self.eval(st.value, env)
            return [], [(pc, env)]
        if isinstance(st, ast.Return):
            v = self.eval(st.value, env) if st.value is not None else None
            return self._emit(pc, "return", v), []
        if isinstance(st, ast.Raise):
            v = self.eval(st.exc, env) if st.exc is not None else Opaque("exc:reraise")
            name = v.what.split(":", 1)[1] if isinstance(v, Opaque) and v.what.startswith("exc:") else (v.what if isinstance(v, Opaque) else "exc")
            if isinstance(v, Opaque) and v.what.startswith("builtin:"):
                name = v.what.split(":")[1]
            return [Outcome(pc, "raise", name)], []
        if isinstance(st, ast.Assign):
            if len(st.targets) != 1 or not isinstance(st.targets[0], ast.Name):
                raise Unencodable("assign target")
            v = self.eval(st.value, env)
            if isinstance(v, Inline):
                outs, falls = [], []
                for o in v.outs:
                    if o.kind == "raise":
                        outs.append(Outcome(z3.And(pc, o.pc), "raise", o.value))
                    else:
                        e2 = dict(env)
                        e2[st.targets[0].id] = o.value
                        falls.append((z3.And(pc, o.pc), e2))
                return outs, falls
            e2 = dict(env)
            e2[st.targets[0].id] = v
            return [], [(pc, e2)]
        if isinstance(st, ast.If):
            c = self.truth(self.eval(st.test, env))
            if isinstance(c, bool):
                return self.block(st.body if c else st.orelse, env, pc)
            o1, f1 = self.block(st.body, env, z3.And(pc, c))
            o2, f2 = self.block(st.orelse, env, z3.And(pc, z3.Not(c)))
            return o1 + o2, f1 + f2
        if isinstance(st, ast.Try):
            # only OverflowError of float(int) / ValueError are caught in the kernels; within the
            # W-bit bound float(int) cannot overflow -> the handlers are unreachable for numbers
            self.assumptions.append(f"try/except at line {st.lineno}: handler unreachable for |int| < 2^{W-1} (float(int) cannot overflow)")
            return self.block(st.body, env, pc)
        raise Unencodable(ast.dump(st)[:200])


@dataclass
class IntOfFloat:
    """int(f) kept symbolic as 'the integer part of f' until it is compared or returned."""
    f: SFloat


@dataclass
class Inline:
    outs: List[Outcome]


def int_value(v, for_return: bool = True):
    """BitVec term of an integer-valued result (int(f) -> to_sbv RTZ)."""
    if isinstance(v, SInt):
        return v.t
    if isinstance(v, IntOfFloat):
        return z3.fpToSBV(RTZ, v.f.t, z3.BitVecSort(W))
    if isinstance(v, int) and not isinstance(v, bool):
        return bv(v)
    if isinstance(v, SBool):
        return z3.If(v.t, bv(1), bv(0))
    return None


def check(claim_negation, timeout_ms=120000) -> Tuple[str, Optional[Any], float, str]:
    """-> (verdict 'unsat'|'sat'|'unknown', model, seconds, smt2 text)"""
    import time

    s = z3.Solver()
    s.set("timeout", timeout_ms)
    s.add(claim_negation)
    smt2 = s.to_smt2()
    t0 = time.time()
    r = s.check()
    dt = time.time() - t0
    return str(r), (s.model() if str(r) == "sat" else None), dt, smt2
