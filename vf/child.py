"""Child process entry point for one E1 obligation."""
from __future__ import annotations

import sys
import traceback
from typing import List

from vf.xh import explore, from_jsonable


def main(argv: List[str]) -> int:
    """child entry:  python -m vf.child <spec.json> <out.json>"""
    import importlib
    import json
    import os

    spec = json.load(open(argv[1]))
    sys.setrecursionlimit(10000)
    try:
        mod = importlib.import_module(spec["module"])
        fn = getattr(mod, spec["function"])
        out = explore(
            fn,
            from_jsonable(spec.get("cell", {})),
            budget_s=spec["budget_s"],
            per_path_timeout=spec.get("per_path_timeout", 20.0),
            max_paths=spec.get("max_paths", 10**9),
            seed=spec.get("seed", 0),
            n_samples=spec.get("n_samples", 2),
        )
        try:
            from vf import stubs

            out["stubs"] = sorted(stubs.INSTALLED)
        except Exception:
            out["stubs"] = []
    except BaseException as e:  # noqa: BLE001
        out = {"verdict": "error", "error": repr(e), "traceback": traceback.format_exc()[-4000:]}
    tmp = argv[2] + ".tmp"
    with open(tmp, "w") as f:
        json.dump(out, f)
    os.replace(tmp, argv[2])
    return 0


if __name__ == "__main__":
    sys.exit(main(sys.argv))
