"""vf -- solver-based checking framework for graphql-core (see /verif/DESIGN.md).

Harness-side helpers live here so that a harness needs only ``from vf import *``.
They work both under CrossHair (symbolic run) and in a plain interpreter (replay /
corpus validation).
"""

from __future__ import annotations

import os
import sys

__all__ = ["Skip", "skip", "assume", "forked", "fixlen", "concrete", "note", "verdict", "WITNESS", "NOSTUBS", "symbolic_run"]

WITNESS = os.environ.get("VF_WITNESS") == "1"
NOSTUBS = os.environ.get("VF_NOSTUBS") == "1"


class Skip(BaseException):
    """Raised by a harness when its inputs are outside the stated bound/precondition.

    BaseException so that no ``except Exception`` in library code can swallow it.
    """


def skip() -> None:
    raise Skip()


def assume(cond) -> None:
    """Precondition: inputs for which ``cond`` is false are outside the claim."""
    if not cond:
        raise Skip()


def forked(x, lo: int, hi: int) -> int:
    """Solver-checked fork of a bounded symbolic int into a concrete int in [lo, hi)."""
    for k in range(lo, hi):
        if x == k:
            return k
    raise Skip()


def fixlen(s: str, maxlen: int) -> str:
    """An equal string whose *length* is concrete (solver-forked).  Needed before a symbolic
    string is spliced into a long concrete template: with a symbolic length every later
    position of the concatenation would be symbolic too."""
    n = forked(len(s), 0, maxlen + 1)
    out = ""
    for k in range(n):
        out = out + s[k]
    return out


def forked_bool(b) -> bool:
    if b:
        return True
    return False


def verdict(ok) -> bool:
    """Every harness routes its final answer through this (reachability twin)."""
    if WITNESS:
        return False
    if ok:
        return True
    return False


def concrete(fn, *args, **kwargs):
    """Run ``fn`` on arguments that are already fully concrete (all symbolic selectors have
    been forked) without CrossHair's opcode tracing.  Semantically identical -- no symbolic
    value flows in, so there is nothing to intercept -- but 10-50x faster."""
    if symbolic_run():
        from crosshair.tracers import NoTracing

        with NoTracing():
            return fn(*args, **kwargs)
    return fn(*args, **kwargs)


NOTES = []


def note(text: str) -> None:
    """Attach a short reason to the current concrete run (reported by vf.replay; used to tell
    recorded known findings apart from other violations)."""
    NOTES.append(text)


def symbolic_run() -> bool:
    """True while running under the CrossHair driver (vf.xh)."""
    return bool(getattr(sys.modules.get("vf.xh"), "ACTIVE", False))
