"""Parent-side driver: runs the obligations of one property in parallel child processes,
replays counterexamples on the real code without stubs, checks reachability twins, validates
harnesses on the concrete corpus, and writes evidence/<id>.json.

Exit codes: 0 held on everything explored / only KNOWN findings; 1 VIOLATION; 3 harness error.
"""

from __future__ import annotations

import hashlib
import importlib
import json
import os
import subprocess
import sys
import tempfile
import time
from dataclasses import dataclass, field
from pathlib import Path
from typing import Any, Dict, List, Optional

ROOT = Path(__file__).resolve().parent.parent
PY = os.environ.get("VF_PY") or str(ROOT / ".venv" / "bin" / "python")
if not os.path.isabs(PY):
    PY = str(ROOT / PY)
NPROC = int(os.environ.get("VF_NPROC", os.cpu_count() or 4))


@dataclass
class Ob:
    """One obligation: harness function x cell of its partition x budget."""

    fn: str
    cell: Dict[str, Any] = field(default_factory=dict)
    budget_s: float = 60.0
    per_path_timeout: float = 20.0
    expect_confirm: bool = True  # False: known not to exhaust (bug hunting only)
    module: str = ""
    max_paths: int = 10**9
    engine: str = "E1"

    @property
    def name(self) -> str:
        c = ",".join(f"{k}={v!r}" for k, v in sorted(self.cell.items()))
        return f"{self.module.split('.')[-1]}.{self.fn}[{c}]"


def _child_env(extra: Optional[Dict[str, str]] = None) -> Dict[str, str]:
    env = dict(os.environ)
    env["PYTHONPATH"] = str(ROOT) + os.pathsep + os.environ.get("VF_REPO", "/repo") + "/src"
    env["PYTHONHASHSEED"] = "0"
    env.pop("VF_WITNESS", None)
    env.pop("VF_NOSTUBS", None)
    if extra:
        env.update(extra)
    return env


class Pool:
    def __init__(self, nproc: int):
        self.nproc = nproc
        self.running: List[Any] = []
        self.tmp = tempfile.mkdtemp(prefix="vf-", dir=os.environ.get("VF_TMP", None))

    def submit(self, ob: Ob, seed: int, extra_env=None, tag="", budget_override=None, n_samples=2):
        from vf.xh import _jsonable

        i = len(os.listdir(self.tmp))
        spec_p = os.path.join(self.tmp, f"{i}.spec.json")
        out_p = os.path.join(self.tmp, f"{i}.out.json")
        budget = budget_override or ob.budget_s
        spec = {
            "module": ob.module, "function": ob.fn, "cell": {k: _jsonable(v) for k, v in ob.cell.items()},
            "budget_s": budget, "per_path_timeout": ob.per_path_timeout, "seed": seed,
            "max_paths": ob.max_paths, "n_samples": n_samples,
        }
        json.dump(spec, open(spec_p, "w"))
        return {"ob": ob, "spec": spec_p, "out": out_p, "env": _child_env(extra_env), "tag": tag,
                # wall-clock kill limit (budgets are CPU time); generous for the reachability twins, whose
                # failure to finish would otherwise look like a vacuous harness on a loaded machine
                "hard": (budget * 2.5 + 60) if tag != "twin" else max(900.0, budget * 4), "proc": None, "t0": None, "log": os.path.join(self.tmp, f"{i}.log"),
                "entry": "vf.e2child" if ob.engine == "E2" else "vf.child"}

    def run_all(self, jobs: List[dict], progress=None) -> None:
        pending = list(jobs)
        running: List[dict] = []
        while pending or running:
            while pending and len(running) < self.nproc:
                j = pending.pop(0)
                j["t0"] = time.time()
                j["proc"] = subprocess.Popen(
                    [PY, "-m", j["entry"], j["spec"], j["out"]], env=j["env"], cwd=str(ROOT),
                    stdout=open(j["log"], "w"), stderr=subprocess.STDOUT,
                )
                running.append(j)
            time.sleep(0.05)
            for j in list(running):
                rc = j["proc"].poll()
                if rc is None and time.time() - j["t0"] > j["hard"]:
                    j["proc"].kill()
                    j["proc"].wait()
                    rc = -9
                if rc is not None:
                    running.remove(j)
                    if os.path.exists(j["out"]):
                        j["result"] = json.load(open(j["out"]))
                    else:
                        tail = open(j["log"]).read()[-2000:] if os.path.exists(j["log"]) else ""
                        j["result"] = {"verdict": "error" if rc != -9 else "unknown", "error": f"child rc={rc}", "traceback": tail,
                                       "paths": 0, "ok": 0, "skipped": 0, "unknown_paths": 0, "refuted": 0,
                                       "unknown_reasons": {"hard-timeout": 1} if rc == -9 else {}}
                    if progress:
                        progress(j)

    def cleanup(self):
        import shutil

        shutil.rmtree(self.tmp, ignore_errors=True)


def replay_concrete(module: str, fn: str, cell: dict, args: dict, timeout: float = 120.0) -> dict:
    """Run the harness concretely on the real code: no CrossHair, no stubs."""
    payload = json.dumps({"module": module, "function": fn, "cell": cell, "args": args})
    try:
        p = subprocess.run([PY, "-m", "vf.replay", "-"], input=payload, capture_output=True, text=True,
                           env=_child_env({"VF_NOSTUBS": "1"}), cwd=str(ROOT), timeout=timeout)
    except subprocess.TimeoutExpired:
        return {"outcome": "timeout"}
    for line in reversed(p.stdout.splitlines()):
        if line.startswith("REPLAY-RESULT "):
            return json.loads(line[len("REPLAY-RESULT "):])
    return {"outcome": "error", "detail": (p.stdout + p.stderr)[-2000:]}


def load_known() -> dict:
    p = ROOT / "known_findings.json"
    if p.exists():
        return json.load(open(p))
    return {"findings": [], "fixed": []}


def match_known(known: dict, prop: str, fn: str, args: dict, cell: Optional[dict] = None, notes: Optional[list] = None) -> Optional[dict]:
    """A recorded finding matches a replayed violation when property and harness function agree
    and either the exact input is listed ('args'), or the failing condition is: the reason the
    concrete replay reports ('reason') plus the listed subset of cell / argument values."""
    for f in known.get("findings", []):
        if f.get("property") != prop or f.get("function") != fn:
            continue
        if "args" in f:
            if f["args"] == args:
                return f
            continue
        if "reason" in f and f["reason"] not in (notes or []):
            continue
        if any((cell or {}).get(k) != v for k, v in f.get("cell_subset", {}).items()):
            continue
        if any(args.get(k) != v for k, v in f.get("args_subset", {}).items()):
            continue
        return f
    return None


def run_property(prop: str, modules: List[str], tier: str, seed: int) -> int:
    t0 = time.time()
    from vf.xh import _jsonable

    obs: List[Ob] = []
    corpus_cases = 0
    functions_encoded: set = set()
    assumptions: List[str] = []
    bounds: List[str] = []
    errors: List[str] = []
    corpus_violations: List[Any] = []
    already_printed: set = set()
    # -- 1. import harness modules, concrete corpus validation (oracle vs repo-pinned expectations)
    sys.path.insert(0, str(ROOT))
    for mname in modules:
        r = subprocess.run([PY, "-m", "vf.corpus", mname, tier], capture_output=True, text=True,
                           env=_child_env({"VF_NOSTUBS": "1"}), cwd=str(ROOT))
        info = None
        for line in r.stdout.splitlines():
            if line.startswith("CORPUS-RESULT "):
                info = json.loads(line[len("CORPUS-RESULT "):])
        if info is None:
            errors.append(f"corpus run of {mname} crashed: {(r.stdout + r.stderr)[-3000:]}")
            continue
        corpus_cases += info["cases"]
        functions_encoded |= set(info["functions"])
        assumptions += info.get("assumptions", [])
        bounds += info.get("bounds", [])
        for f in info["failures"]:
            errors.append(f"corpus failure in {mname}: {f}")
        for v in info.get("violated", []):
            corpus_violations.append((mname, v))
        for o in info["obligations"]:
            obs.append(Ob(module=mname, **o))
    if corpus_violations:
        # a pinned concrete input on which the property fails on the current tree: already a
        # concrete run on the real code (no CrossHair, no stubs) -> reported as a violation
        known = load_known()
        known_printed = already_printed
        replay_dir = ROOT / "replays" / prop
        out = []
        for mname, v in corpus_violations:
            cell_j = {k: _jsonable(x) for k, x in v["cell"].items()}
            args_j = {k: _jsonable(x) for k, x in v["args"].items()}
            rep = replay_concrete(mname, v["function"], cell_j, args_j)
            kf = match_known(known, prop, v["function"], args_j, cell_j, rep.get("notes"))
            if kf:
                if kf.get("what") not in known_printed:
                    known_printed.add(kf.get("what"))
                    print(f"KNOWN-FINDING: property={prop} {kf.get('what', '')}")
                continue
            replay_dir.mkdir(parents=True, exist_ok=True)
            h = hashlib.sha1(json.dumps([mname, v["function"], cell_j, args_j], sort_keys=True).encode()).hexdigest()[:12]
            path = replay_dir / f"{v['function']}-{h}.json"
            json.dump({"property": prop, "module": mname, "function": v["function"], "cell": cell_j, "args": args_j,
                       "origin": "concrete corpus case"}, open(path, "w"), indent=1)
            out.append(str(path))
        if out:
            _write_evidence(prop, tier, seed, t0, [], [], corpus_cases, functions_encoded, assumptions, bounds,
                            violations=len(out), harness_errors=[], known_hits=[],
                            extra_samples=[{"corpus_violation": v} for _m, v in corpus_violations])
            for path in out:
                print(f"VIOLATION property={prop} replay={path}")
            return 1

    if errors:
        for e in errors:
            print("HARNESS-ERROR", e)
        _write_evidence(prop, tier, seed, t0, [], [], corpus_cases, functions_encoded, assumptions, bounds,
                        violations=0, harness_errors=errors, known_hits=[])
        return 3
    # size the tier by total wall time: if the budgets add up to more than the tier's wall-clock
    # target on NPROC cores, scale them down proportionally (never below 30 s); obligations that
    # exhaust earlier finish earlier, so the target is an upper bound
    wall_target = float(os.environ.get("VF_WALL_TARGET", "2400" if tier == "thorough" else "330"))
    total = sum(o.budget_s for o in obs)
    if total > wall_target * NPROC:
        k = wall_target * NPROC / total
        for o in obs:
            o.budget_s = max(20.0, round(o.budget_s * k, 1))
    pool = Pool(NPROC)
    # order: longest budgets first
    obs.sort(key=lambda o: -o.budget_s)
    jobs = [pool.submit(o, seed) for o in obs]
    # reachability twins: one per distinct harness function
    twins = []
    seen = set()
    for o in obs:
        key = (o.module, o.fn)
        if key in seen or o.engine == "E2":
            continue
        seen.add(key)
        twins.append(pool.submit(o, seed, {"VF_WITNESS": "1"}, tag="twin", budget_override=min(o.budget_s, 90.0), n_samples=0))

    def progress(j):
        r = j["result"]
        if os.environ.get("VF_VERBOSE"):
            print(f"  [{j['tag'] or 'ob'}] {j['ob'].name}: {r.get('verdict')} paths={r.get('paths')} cpu={r.get('cpu_s')}", flush=True)

    pool.run_all(twins + jobs, progress)

    known = load_known()
    violations = []
    known_hits = []
    spurious = []
    harness_errors: List[str] = []
    for j in twins:
        r = j["result"]
        if r.get("verdict") != "refuted":
            harness_errors.append(f"reachability twin of {j['ob'].name} not refuted (verdict={r.get('verdict')} {r.get('error', '')} {r.get('unknown_reasons', '')}): harness may be vacuous")
    replay_dir = ROOT / "replays" / prop
    for j in jobs:
        r = j["result"]
        ob = j["ob"]
        if r.get("verdict") == "error":
            harness_errors.append(f"{ob.name}: {r.get('error')}\n{r.get('traceback', '')}")
            continue
        for ce in r.get("counterexamples", []):
            cell_j = {k: _jsonable(v) for k, v in ob.cell.items()}
            rfn = ob.fn
            if ob.engine == "E2":
                # E2 counterexamples are replayed through the module's concrete twin
                mod = importlib.import_module(ob.module)
                rfn, cell_j = mod.replay_target(ob.cell)
                cell_j = {k: _jsonable(v) for k, v in cell_j.items()}
            rep = replay_concrete(ob.module, rfn, cell_j, ce["args"])
            ce["replay"] = rep
            if rep.get("outcome") == "violation":
                kf = match_known(known, prop, rfn, ce["args"], cell_j, rep.get("notes"))
                if kf:
                    known_hits.append(kf)
                    continue
                replay_dir.mkdir(parents=True, exist_ok=True)
                h = hashlib.sha1(json.dumps([ob.module, ob.fn, cell_j, ce["args"]], sort_keys=True).encode()).hexdigest()[:12]
                path = replay_dir / f"{rfn}-{h}.json"
                json.dump({"property": prop, "module": ob.module, "function": rfn, "cell": cell_j, "args": ce["args"], "claim": ce.get("claim"),
                           "symbolic_exception": ce.get("exception"), "replay": rep}, open(path, "w"), indent=1)
                violations.append((ob, ce, str(path)))
            elif rep.get("outcome") in ("ok", "skip"):
                spurious.append({"obligation": ob.name, "args": ce["args"], "replay": rep, "symbolic_exception": ce.get("exception"), "traceback": ce.get("traceback")})
                r["verdict"] = "unknown"
                r.setdefault("unknown_reasons", {})["spurious-counterexample"] = 1
            else:
                harness_errors.append(f"{ob.name}: replay of counterexample {ce['args']} did not complete: {rep}")
    pool.cleanup()

    _write_evidence(prop, tier, seed, t0, jobs, twins, corpus_cases, functions_encoded, assumptions, bounds,
                    violations=len(violations), harness_errors=harness_errors, known_hits=known_hits, spurious=spurious)
    for what in sorted({kf.get("what", "") for kf in known_hits} - already_printed):
        print(f"KNOWN-FINDING: property={prop} {what}")
    conf = sum(1 for j in jobs if j["result"].get("verdict") == "confirmed")
    unk = sum(1 for j in jobs if j["result"].get("verdict") == "unknown")
    print(f"{prop} tier={tier}: obligations={len(jobs)} confirmed_all_paths={conf} inconclusive={unk} "
          f"violations={len(violations)} spurious={len(spurious)} paths={sum(j['result'].get('paths', 0) for j in jobs)} wall={time.time() - t0:.1f}s")
    if os.environ.get("VF_VERBOSE") or unk:
        for j in jobs:
            r = j["result"]
            if r.get("verdict") == "unknown":
                print(f"  inconclusive: {j['ob'].name} paths={r.get('paths')} exhausted={r.get('exhausted')} unknown_paths={r.get('unknown_paths')} reasons={r.get('unknown_reasons')}")
    for s in spurious:
        print(f"  spurious (not reproduced on real code, no alarm): {s['obligation']} {s['args']} {s.get('symbolic_exception')}")
    if violations:
        for ob, ce, path in violations:
            print(f"VIOLATION property={prop} replay={path}")
        return 1
    if harness_errors:
        for e in harness_errors:
            print("HARNESS-ERROR", e)
        return 3
    return 0


def _write_evidence(prop, tier, seed, t0, jobs, twins, corpus_cases, functions, assumptions, bounds, *, violations,
                    harness_errors, known_hits, spurious=(), extra_samples=(), **_):
    ev_dir = Path(os.environ["VF_EVIDENCE_DIR"]) if os.environ.get("VF_EVIDENCE_DIR") else ROOT / "evidence"  # (sweeps of seeded changes must not overwrite the evidence of the real tree)
    ev_dir.mkdir(exist_ok=True)
    paths = sum(j["result"].get("paths", 0) for j in jobs)
    nontrivial = sum(j["result"].get("ok", 0) + j["result"].get("refuted", 0) for j in jobs)
    if not jobs:
        # the run ended at the concrete corpus stage: the cases evaluated are the corpus cases
        paths = nontrivial = corpus_cases
    samples = []
    obl = []
    stubs = set()
    e2_functions = set()
    for j in jobs:
        r = j["result"]
        ob = j["ob"]
        stubs |= set(r.get("stubs", []))
        e2_functions |= set(r.get("functions_encoded", []))
        obl.append({
            "name": ob.name, "engine": ob.engine, "verdict": r.get("verdict"), "paths": r.get("paths", 0),
            "paths_reaching_assertion": r.get("ok", 0) + r.get("refuted", 0), "paths_outside_precondition": r.get("skipped", 0),
            "inconclusive_paths": r.get("unknown_paths", 0), "exhausted": r.get("exhausted", False),
            "solver_queries": r.get("solver_queries", 0), "solver_seconds": r.get("solver_seconds", 0),
            "cpu_s": r.get("cpu_s", 0), "budget_s": ob.budget_s, "unknown_reasons": r.get("unknown_reasons", {}),
            "expected_to_exhaust": ob.expect_confirm,
        })
        for s in r.get("samples", [])[:1]:
            if len(samples) < 12:
                samples.append({"obligation": ob.name, "path_inputs": s})
        for ce in r.get("counterexamples", []):
            samples.append({"obligation": ob.name, "counterexample": ce})
    samples += list(extra_samples)
    if not samples:
        samples = [{"note": "no path reached the assertion"}]
    confirmed = sum(1 for o in obl if o["verdict"] == "confirmed")
    ev = {
        "property_id": prop, "tier": tier, "seed": seed, "level": "model_checking",
        "coverage": {
            "evaluations": max(paths, 1),
            "distinct_nontrivial": nontrivial,
            "rule": "one evaluation = one symbolic execution path of the harness through the real graphql-core code "
                    "(CrossHair/z3); each path has a distinct path condition and stands for the whole class of inputs "
                    "satisfying it; non-trivial = the path satisfied the harness preconditions and reached the assertion "
                    "(paths rejected by a precondition are counted separately as paths_outside_precondition)",
            "samples": samples,
            "exhaustive": bool(obl) and confirmed == len(obl),
            "obligations": len(obl),
            "confirmed_all_paths": confirmed,
            "inconclusive": sum(1 for o in obl if o["verdict"] == "unknown"),
            "refuted": sum(1 for o in obl if o["verdict"] == "refuted"),
            "spurious_counterexamples": list(spurious),
            "known_findings_hit": [k.get("what") for k in known_hits],
            "solver_queries": sum(o["solver_queries"] for o in obl),
            "solver_seconds": round(sum(o["solver_seconds"] for o in obl), 2),
            "witness_twins": len(twins),
            "witness_twins_refuted": sum(1 for j in twins if j["result"].get("verdict") == "refuted"),
            "oracle_corpus_cases": corpus_cases,
            "functions_encoded": sorted(functions),
            "functions_translated_to_smt": sorted(e2_functions),
            "bounds": bounds,
            "stubs": sorted(stubs),
            "obligation_details": obl,
            "harness_errors": harness_errors,
            "engine": "crosshair-tool 0.0.110 on z3 (E1); see obligation_details[].engine",
        },
        "assumptions": assumptions or ["see DESIGN.md section 4"],
        "wall_s": round(time.time() - t0, 2),
        "violations": violations,
    }
    tmp = ev_dir / f"{prop}.json.tmp"
    json.dump(ev, open(tmp, "w"), indent=1)
    os.replace(tmp, ev_dir / f"{prop}.json")
