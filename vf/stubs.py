"""Stubs installed in the harness process only (never in /repo).  Each one is named and the
names end up in the evidence file.  With VF_NOSTUBS=1 (replay) nothing is installed."""

from __future__ import annotations

from vf import NOSTUBS

INSTALLED = set()


def fast_syntax_error() -> None:
    """GraphQLSyntaxError without location rendering (rendering is C10's subject)."""
    if NOSTUBS or "fast_syntax_error" in INSTALLED:
        return
    from graphql.error import GraphQLSyntaxError
    from graphql.language import lexer, parser, schema_coordinate_lexer
    from graphql.language.lexer import Lexer

    from graphql.error import GraphQLError

    class FastSyntaxError(GraphQLSyntaxError):
        """Same class hierarchy, same source/positions/locations; only the description text
        (which formats source characters into a message) is replaced by a constant."""

        def __init__(self, source, position, description):  # noqa: D107
            GraphQLError.__init__(self, "Syntax Error: <stubbed>", source=source, positions=[position])
            self.description = "<stubbed>"

    for m in (lexer, parser, schema_coordinate_lexer):
        if hasattr(m, "GraphQLSyntaxError"):
            m.GraphQLSyntaxError = FastSyntaxError
    Lexer.print_code_point_at = lambda self, location: "<cp>"  # type: ignore
    INSTALLED.add("fast_syntax_error")


def const_inspect(*modules) -> None:
    """pyutils.inspect -> constant in the given modules (messages are not the subject)."""
    if NOSTUBS:
        return
    for m in modules:
        if hasattr(m, "inspect"):
            m.inspect = lambda value: "<value>"
            INSTALLED.add("const_inspect:" + m.__name__)
