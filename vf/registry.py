"""Which harness modules decide which property."""
PROPERTIES = {
    "C10": ["harness.C10_location"],
}
