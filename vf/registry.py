"""Which harness modules decide which property."""
PROPERTIES = {
    "C13": ["harness.C13_valid_runs"],
    "C06": ["harness.C06_stop"],
    "C04": ["harness.C04_incremental"],
    "C05": ["harness.C05_protocol"],
    "C07": ["harness.C07_subscribe"],
    "C03": ["harness.C03_order"],
    "C02": ["harness.C02_execute"],
    "C20": ["harness.C20_schema_validation"],
    "C14": ["harness.C14_merge"],
    "C15": ["harness.C15_input", "harness.C16_numeric"],
    "C16": ["harness.C16_leaf", "harness.C16_numeric"],
    "C11": ["harness.C11_visitor"],
    "C01": ["harness.C01_total"],
    "C08": ["harness.C08_roundtrip"],
    "C09": ["harness.C09_ignored"],
    "C10": ["harness.C10_location"],
}
