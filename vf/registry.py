"""Which harness modules decide which property."""
PROPERTIES = {
    "C09": ["harness.C09_ignored"],
    "C10": ["harness.C10_location"],
}
