"""Which harness modules decide which property."""
PROPERTIES = {
    "C01": ["harness.C01_total"],
    "C09": ["harness.C09_ignored"],
    "C10": ["harness.C10_location"],
}
