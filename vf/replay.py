"""Concrete replay of one harness call on the real code (no CrossHair; stubs off when
VF_NOSTUBS=1).  Usage: python -m vf.replay <file.json | ->"""
from __future__ import annotations

import importlib
import json
import sys
import traceback


def run(payload: dict) -> dict:
    from vf import Skip
    from vf.xh import from_jsonable

    sys.setrecursionlimit(10000)
    mod = importlib.import_module(payload["module"])
    fn = getattr(mod, payload["function"])
    cell = from_jsonable(payload.get("cell", {}))
    args = {k: from_jsonable(v) for k, v in payload["args"].items()}
    try:
        r = fn(**args, **cell)
    except Skip:
        return {"outcome": "skip"}
    except Exception as e:  # noqa: BLE001
        return {"outcome": "exception", "detail": repr(e), "traceback": traceback.format_exc()[-3000:]}
    import vf

    return {"outcome": "ok" if r else "violation", "notes": list(vf.NOTES)}


def main() -> int:
    src = sys.argv[1]
    payload = json.load(sys.stdin if src == "-" else open(src))
    res = run(payload)
    print("REPLAY-RESULT " + json.dumps(res))
    return 1 if res["outcome"] == "violation" else 0


if __name__ == "__main__":
    sys.exit(main())
