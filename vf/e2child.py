"""Child process entry point for one E2 (AST -> SMT) obligation."""
from __future__ import annotations

import importlib
import json
import os
import sys
import traceback


def main(argv):
    from vf.xh import _jsonable, from_jsonable

    spec = json.load(open(argv[1]))
    try:
        mod = importlib.import_module(spec["module"])
        fn = getattr(mod, spec["function"])
        cell = from_jsonable(spec.get("cell", {}))
        out = fn(**cell)
        for ce in out.get("counterexamples", []):
            ce["args"] = {k: _jsonable(v) for k, v in ce["args"].items()}
        out.setdefault("stubs", [])
    except BaseException as e:  # noqa: BLE001
        out = {"verdict": "error", "error": repr(e), "traceback": traceback.format_exc()[-4000:]}
    tmp = argv[2] + ".tmp"
    with open(tmp, "w") as f:
        json.dump(out, f)
    os.replace(tmp, argv[2])
    return 0


if __name__ == "__main__":
    sys.exit(main(sys.argv))
