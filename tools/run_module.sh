#!/bin/bash
# tools/run_module.sh <Cxx> <harness.module> [tier] -- run the obligations of one harness module only (development aid;
# writes evidence/<Cxx>.json like ./check does, so re-run ./check afterwards)
cd /verif
exec env PYTHONPATH="/verif:${VF_REPO:-/repo}/src" PYTHONHASHSEED=0 .venv/bin/python -c "
import sys
from vf.run import run_property
sys.exit(run_property('$1', ['$2'], '${3:-quick}', 0))"
