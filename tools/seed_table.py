#!/usr/bin/env python3
"""tools/seed_table.py -- markdown table of seeded changes and which check caught them (from seeded/*/meta.json)."""
import json, os, re
root = os.path.join(os.path.dirname(os.path.abspath(__file__)), "..", "seeded")
rows = []
for d in sorted(os.listdir(root)):
    f = os.path.join(root, d, "meta.json")
    if not os.path.exists(f):
        continue
    m = json.load(open(f))
    det = m.get("detected_by") or {}
    fns = re.sub(r"\s+", " ", det.get("harness_functions", "")).strip(" ;")
    first = (m.get("needs_to_manifest") or "").strip().splitlines()
    what = next((l.strip("# -*").strip() for l in first if l.strip("# -*").strip()), "")[:110]
    rows.append((d, "caught" if det.get("exit_code") == 1 else ("MISSED" if det else "not run"), fns, what))
print("| seed | quick check | harness functions reporting | change |")
print("|---|---|---|---|")
for r in rows:
    print("| " + " | ".join(r) + " |")
print()
print(f"{sum(1 for r in rows if r[1] == 'caught')} of {len(rows)} caught")
