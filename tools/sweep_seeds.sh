#!/bin/bash
# tools/sweep_seeds.sh [ids...] -- run every seeded change against the check of its property
# (quick tier), record the outcome in seeded/<id>/meta.json.  Leaves /repo clean.
cd /verif
IDS=${@:-$(ls seeded | grep -v '^_')}
for id in $IDS; do
  P=${id%%-*}
  [ -f seeded/$id/patch.diff ] || continue
  git -C /repo checkout -q -- . 
  if ! git -C /repo apply /verif/seeded/$id/patch.diff 2>/dev/null; then echo "$id: patch does not apply"; continue; fi
  ./check $P --tier quick > /tmp/sweep-$id.out 2>&1; RC=$?
  git -C /repo checkout -q -- .
  N=$(grep -c '^VIOLATION' /tmp/sweep-$id.out)
  FN=$(grep '^VIOLATION' /tmp/sweep-$id.out | sed 's/.*replay=.*\/\([a-z_0-9]*\)-[0-9a-f]*\.json/\1/' | sort | uniq -c | tr '\n' ';')
  python3 - "$id" "$P" "$RC" "$N" "$FN" <<'PY'
import json,sys
id_,p,rc,n,fn=sys.argv[1:6]
f=f'/verif/seeded/{id_}/meta.json'
m=json.load(open(f))
m['detected_by']={"check": f"./check {p} --tier quick", "exit_code": int(rc), "violation_lines": int(n), "harness_functions": fn.strip()}
json.dump(m,open(f,'w'),indent=1)
print(f"{id_}: rc={rc} violations={n} {fn.strip()}")
PY
done
