#!/bin/bash
# tools/verify_seed.sh <seed-src-dir> <property> <name>
# Confirms a seeded change in a scratch worktree: suite passes with it, demo fails with it and
# passes without it.  On success copies it to /verif/seeded/<property>-<name>/ with meta.json.
set -u
SRC=$1; PROP=$2; NAME=$3
WT=$(mktemp -d /tmp/vs-XXXXXX); rmdir "$WT"
git -C /repo worktree add -q "$WT" HEAD || exit 2
cleanup() { git -C /repo worktree remove --force "$WT" 2>/dev/null; rm -rf "$WT"; }
trap cleanup EXIT
cd "$WT"
export PYTHONPATH="$WT/src"
/venv/bin/python "$SRC/demo.py" >/tmp/vs-clean.out 2>&1; CLEAN=$?
git apply "$SRC/patch.diff" || { echo "patch does not apply"; exit 2; }
/venv/bin/python "$SRC/demo.py" >/tmp/vs-patched.out 2>&1; PATCHED=$?
/venv/bin/python -m pytest -q -p no:cacheprovider --timeout=900 tests 2>&1 | tail -1 > /tmp/vs-suite.out; 
SUITE=$(cat /tmp/vs-suite.out)
echo "clean demo rc=$CLEAN; patched demo rc=$PATCHED; suite: $SUITE"
if [ $CLEAN -eq 0 ] && [ $PATCHED -ne 0 ] && echo "$SUITE" | grep -q "passed" && ! echo "$SUITE" | grep -q "failed\|error"; then
  D=/verif/seeded/$PROP-$NAME; mkdir -p "$D"
  cp "$SRC/patch.diff" "$D/patch.diff"; cp "$SRC/demo.py" "$D/demo.py"; [ -f "$SRC/notes.md" ] && cp "$SRC/notes.md" "$D/notes.md"
  python3 - "$D" "$PROP" "$SUITE" <<'PY'
import json,sys,os
d,prop,suite=sys.argv[1:4]
notes=open(os.path.join(d,'notes.md')).read() if os.path.exists(os.path.join(d,'notes.md')) else ''
meta={"property":prop,"needs_to_manifest":notes.strip(),"confirmed":{"suite_with_patch":suite.strip(),"demo_with_patch":"fails (non-zero exit)","demo_without_patch":"passes (exit 0)","how":"tools/verify_seed.sh in a scratch worktree of /repo HEAD"},"detected_by":None}
json.dump(meta,open(os.path.join(d,'meta.json'),'w'),indent=1)
PY
  echo "KEPT $D"
else
  echo "REJECTED"; tail -5 /tmp/vs-clean.out /tmp/vs-patched.out
fi
