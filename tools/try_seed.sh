#!/bin/bash
# tools/try_seed.sh <seeded-dir> <Cxx> [tier]  -- apply a seeded change to /repo, run a check, undo it.
set -u
D=$1; P=$2; T=${3:-quick}
cd /repo && git apply "$D/patch.diff" || exit 2
cd /verif && ./check "$P" --tier "$T" > /tmp/try-$P.out 2>&1; RC=$?
git -C /repo checkout -- . 
echo "$(basename $D) vs $P/$T: rc=$RC $(grep -c '^VIOLATION' /tmp/try-$P.out) violation lines; $(grep '^VIOLATION' /tmp/try-$P.out | head -2 | tr '\n' ' ')"
