#!/bin/bash
# tools/sweep_seeds_wt.sh [ids...] -- like sweep_seeds.sh, but never touches /repo: each seeded change is
# applied in a scratch worktree of /repo HEAD and the check runs against it through VF_REPO.
cd "$(dirname "$0")/.."
HERE=$(pwd)
IDS=${@:-$(ls seeded | grep -v '^_')}
WT=$(mktemp -d /tmp/sw-XXXXXX); rmdir "$WT"
git -C /repo worktree add -q --detach "$WT" HEAD || exit 2
trap 'git -C /repo worktree remove --force "$WT" 2>/dev/null; rm -rf "$WT"' EXIT
for id in $IDS; do
  P=${id%%-*}
  [ -f seeded/$id/patch.diff ] || continue
  git -C "$WT" checkout -q -- . 
  if ! git -C "$WT" apply $HERE/seeded/$id/patch.diff 2>/dev/null; then echo "$id: patch does not apply"; continue; fi
  VF_EVIDENCE_DIR=/tmp/sweep-evidence VF_REPO="$WT" ./check $P --tier quick > /tmp/sweep-$id.out 2>&1; RC=$?
  git -C "$WT" checkout -q -- .
  N=$(grep -c '^VIOLATION' /tmp/sweep-$id.out)
  FN=$(grep '^VIOLATION' /tmp/sweep-$id.out | sed 's/.*replay=.*\/\([a-z_0-9]*\)-[0-9a-f]*\.json/\1/' | sort | uniq -c | tr '\n' ';')
  HERE=$HERE python3 - "$id" "$P" "$RC" "$N" "$FN" <<'PY'
import json,sys
id_,p,rc,n,fn=sys.argv[1:6]
import os
f=os.path.join(os.environ.get('HERE','/verif'),'seeded',id_,'meta.json')
m=json.load(open(f))
m['detected_by']={"check": f"./check {p} --tier quick", "exit_code": int(rc), "violation_lines": int(n), "harness_functions": fn.strip()}
json.dump(m,open(f,'w'),indent=1)
print(f"{id_}: rc={rc} violations={n} {fn.strip()}")
PY
done
