#!/bin/bash
# tools/run_all.sh <tier> [seed]  -- every claimed check once on the current tree; one line each
cd /verif
T=${1:-quick}; S=${2:-0}
for p in $(python3 -c "
import json
print(' '.join(c['property_id'] for c in json.load(open('MANIFEST.json'))['checks']))"); do
  VERIF_SEED=$S ./check $p --tier $T > /tmp/all-$p-$T.out 2>&1; RC=$?
  echo "$p rc=$RC $(grep "tier=$T" /tmp/all-$p-$T.out | cut -c1-160) $(grep -c '^VIOLATION' /tmp/all-$p-$T.out)v $(grep -c '^KNOWN' /tmp/all-$p-$T.out)k $(grep -c '^HARNESS' /tmp/all-$p-$T.out)h"
done
